/-
  C18 — re-encoding an accepted input reaches a fixed point (binary encoding, generic decoder).

  `unmarshalValue` is the model of `ttlv.UnmarshalTTLV(bs, &ttlv.Value{})`, `enc` the model of the
  binary writer. The theorems quantify over EVERY byte string the decoder accepts — in particular the
  ones no encoder of the library emits: non-zero padding, over-long / non-aligned big integers,
  children dropped after a tag-0 child, a further valid item after the root, a root whose tag is 0.
  The only hypothesis is that the input is shorter than 4 GiB (the transport limit is 1 MiB); it is
  needed for one reason only: the length field of the re-encoding has 32 bits.
-/
import KmipModel.Lemmas.FixpointLemmas
import KmipModel.Props.C18Typed
import KmipModel.Lemmas.FixpointCross
import KmipModel.Props.C04
namespace Kmip.C18
open Kmip

/-- 1. every tree the generic decoder returns is representable: tags fit 3 bytes (non-zero below
    the root), integers lie in their Go ranges, every length fits the 32-bit length field. -/
theorem decoded_in_range (bs : Bytes) (t : Item) (hlen : bs.length < 2 ^ 32)
    (h : unmarshalValue bs = .ok t) : t.InRange0 :=
  (unmarshalValue_sound bs t hlen h).1

/-- 1'. the canonical re-encoding is never longer than the accepted input (zero padding replaces
    arbitrary padding, minimal big integers replace over-long or non-aligned ones — the minimal
    8-aligned form of a non-aligned big integer fits into the padded extent it occupied —, dropped
    children and trailing items disappear). -/
theorem reencode_not_longer (bs : Bytes) (t : Item) (hlen : bs.length < 2 ^ 32)
    (h : unmarshalValue bs = .ok t) : (enc t).length ≤ bs.length :=
  (unmarshalValue_sound bs t hlen h).2

/-- `InRange0` is `InRange` except that the root may carry tag 0. -/
theorem inRange0_spec (t : Item) : t.InRange ↔ 0 < t.tag ∧ t.InRange0 :=
  Item.InRange_iff0 t

/-- 2a. the tag-0-root generalisation of `C02.unmarshal_enc`. -/
theorem unmarshal_enc0 (t : Item) (h : t.InRange0) : unmarshalValue (enc t) = .ok t :=
  unmarshalValue_enc0 t h

/-- 2. whatever the generic decoder accepts, re-encoding the decoded tree and decoding again
    succeeds and returns the SAME tree. -/
theorem decode_reencode_fixpoint (bs : Bytes) (t : Item) (hlen : bs.length < 2 ^ 32)
    (h : unmarshalValue bs = .ok t) : unmarshalValue (enc t) = .ok t :=
  unmarshalValue_enc0 t (decoded_in_range bs t hlen h)

/-- 2'. hence the second re-encoding is byte-identical to the first. -/
theorem second_reencode_identical (bs : Bytes) (t : Item) (hlen : bs.length < 2 ^ 32)
    (h : unmarshalValue bs = .ok t) :
    ∀ t', unmarshalValue (enc t) = .ok t' → enc t' = enc t := by
  intro t' h'
  rw [decode_reencode_fixpoint bs t hlen h] at h'
  cases h'
  rfl

/-- 2''. the property in one statement: accepted ⇒ the re-encoding is accepted, and re-encoding
    what it decodes to gives the same bytes. -/
theorem reencode_fixpoint (bs : Bytes) (t : Item) (hlen : bs.length < 2 ^ 32)
    (h : unmarshalValue bs = .ok t) :
    ∃ t', unmarshalValue (enc t) = .ok t' ∧ enc t' = enc t :=
  ⟨t, decode_reencode_fixpoint bs t hlen h, rfl⟩

/-! ### non-vacuity: accepted inputs that no encoder of the library emits -/

/-- a 5-byte text string followed by NON-ZERO padding. -/
def inPad : Bytes := [0x42, 0, 0x0D, 7, 0, 0, 0, 5, 0x68, 0x65, 0x6c, 0x6c, 0x6f, 0xff, 0xff, 0xff]
/-- a 16-byte big integer `00…0001` (over-long). -/
def inBig16 : Bytes := [0x42, 0, 0x0B, 4, 0, 0, 0, 16, 0, 0, 0, 0, 0, 0, 0, 0, 0, 0, 0, 0, 0, 0, 0, 1]
/-- a 3-byte big integer `FFFFFE` (not 8-aligned) followed by non-zero padding. -/
def inBig3 : Bytes := [0x42, 0, 0x0B, 4, 0, 0, 0, 3, 0xff, 0xff, 0xfe, 1, 2, 3, 4, 5]
/-- a structure whose second child has tag 0: it and the third child are dropped. -/
def inTag0Child : Bytes := [0x42, 0, 0x78, 1, 0, 0, 0, 48,
  0x42, 0, 0x0A, 2, 0, 0, 0, 4, 0, 0, 0, 7, 0, 0, 0, 0,
  0, 0, 0, 2, 0, 0, 0, 4, 0, 0, 0, 8, 0, 0, 0, 0,
  0x42, 0, 0x0A, 2, 0, 0, 0, 4, 0, 0, 0, 9, 0, 0, 0, 0]
/-- a second valid item after the root. -/
def inTrailing : Bytes := [0x42, 0, 0x0A, 2, 0, 0, 0, 4, 0, 0, 0, 7, 0, 0, 0, 0,
  0x42, 0, 0x0A, 2, 0, 0, 0, 4, 0, 0, 0, 9, 0, 0, 0, 0]
/-- a root with tag 0 and non-zero padding. -/
def inRoot0 : Bytes := [0, 0, 0, 2, 0, 0, 0, 4, 0xff, 0xff, 0xff, 0xff, 9, 9, 9, 9]
/-- a boolean whose 7 high bytes are garbage and whose low byte is `0xFF`. -/
def inBoolFF : Bytes := [0x42, 0, 0x0A, 6, 0, 0, 0, 8, 1, 2, 3, 4, 5, 6, 7, 0xff]

theorem enc_big_one : enc (.big 0x42000B 1) = [0x42, 0, 0x0B, 4, 0, 0, 0, 8, 0, 0, 0, 0, 0, 0, 0, 1] := by
  rw [enc, encodeBig_pos _ (by decide)]
  simp [posPad, natToBytesBE, padForLen]
  rfl

theorem enc_big_minus_two :
    enc (.big 0x42000B (-2)) = [0x42, 0, 0x0B, 4, 0, 0, 0, 8, 0xff, 0xff, 0xff, 0xff, 0xff, 0xff, 0xff, 0xfe] := by
  rw [enc, encodeBig_neg _ (by decide)]
  simp [negBody, negPad, natToBytesBE, negEncLE, padForLen]
  rfl

set_option maxRecDepth 8192 in
/-- each input is accepted, its re-encoding DIFFERS from the input, and the re-encoding decodes to
    the same tree (so the second re-encoding is identical to the first). -/
theorem noncanonical_examples :
    (unmarshalValue inPad = .ok (.text 0x42000D [0x68, 0x65, 0x6c, 0x6c, 0x6f]) ∧
      enc (.text 0x42000D [0x68, 0x65, 0x6c, 0x6c, 0x6f]) ≠ inPad) ∧
    (unmarshalValue inBig16 = .ok (.big 0x42000B 1) ∧ enc (.big 0x42000B 1) ≠ inBig16 ∧
      (enc (.big 0x42000B 1)).length = 16) ∧
    (unmarshalValue inBig3 = .ok (.big 0x42000B (-2)) ∧ enc (.big 0x42000B (-2)) ≠ inBig3) ∧
    (unmarshalValue inTag0Child = .ok (.struct 0x420078 [.int 0x42000A 7]) ∧
      enc (.struct 0x420078 [.int 0x42000A 7]) ≠ inTag0Child) ∧
    (unmarshalValue inTrailing = .ok (.int 0x42000A 7) ∧ enc (.int 0x42000A 7) ≠ inTrailing) ∧
    (unmarshalValue inRoot0 = .ok (.int 0 (-1)) ∧ enc (.int 0 (-1)) ≠ inRoot0) ∧
    (unmarshalValue inBoolFF = .ok (.bool 0x42000A true) ∧ enc (.bool 0x42000A true) ≠ inBoolFF) := by
  refine ⟨⟨rfl, by decide⟩, ⟨rfl, ?_, ?_⟩, ⟨rfl, ?_⟩, ⟨rfl, by decide⟩, ⟨rfl, by decide⟩,
    ⟨rfl, by decide⟩, ⟨rfl, by decide⟩⟩
  · rw [enc_big_one]; decide
  · rw [enc_big_one]; rfl
  · rw [enc_big_minus_two]; decide

/-- the hypotheses of the theorems hold of these inputs, and their conclusions are the expected
    concrete facts. -/
example : unmarshalValue (enc (.text 0x42000D [0x68, 0x65, 0x6c, 0x6c, 0x6f]))
    = .ok (.text 0x42000D [0x68, 0x65, 0x6c, 0x6c, 0x6f]) :=
  decode_reencode_fixpoint inPad _ (by decide) noncanonical_examples.1.1

example : unmarshalValue (enc (.big 0x42000B 1)) = .ok (.big 0x42000B 1) :=
  decode_reencode_fixpoint inBig16 _ (by decide) noncanonical_examples.2.1.1

example : unmarshalValue (enc (.big 0x42000B (-2))) = .ok (.big 0x42000B (-2)) :=
  decode_reencode_fixpoint inBig3 _ (by decide) noncanonical_examples.2.2.1.1

example : unmarshalValue (enc (.struct 0x420078 [.int 0x42000A 7]))
    = .ok (.struct 0x420078 [.int 0x42000A 7]) :=
  decode_reencode_fixpoint inTag0Child _ (by decide) noncanonical_examples.2.2.2.1.1

example : unmarshalValue (enc (.int 0x42000A 7)) = .ok (.int 0x42000A 7) :=
  decode_reencode_fixpoint inTrailing _ (by decide) noncanonical_examples.2.2.2.2.1.1

/-- the root-tag-0 case is not excluded: it is accepted and is a fixed point as well. -/
example : unmarshalValue (enc (.int 0 (-1))) = .ok (.int 0 (-1)) :=
  decode_reencode_fixpoint inRoot0 _ (by decide) noncanonical_examples.2.2.2.2.2.1.1

example : (Item.int 0 (-1)).InRange0 ∧ ¬ (Item.int 0 (-1)).InRange := by
  constructor
  · exact decoded_in_range inRoot0 _ (by decide) noncanonical_examples.2.2.2.2.2.1.1
  · intro h; rw [Item.InRange] at h; exact absurd h.1 (by decide)

set_option maxRecDepth 8192 in
/-- a further item after the root must itself be valid: trailing garbage is rejected (the reader
    validates the next item when it advances past the root). -/
example : unmarshalValue [0x42, 0, 0x0A, 2, 0, 0, 0, 4, 0, 0, 0, 7, 0, 0, 0, 0, 0x42, 0, 0x0A]
    = .err .shortHeader := by rfl

/-! ### the converse of C03: strict acceptance implies lenient acceptance, with the same tree -/

/-- 4. whatever the independent strict parser (`specDecode`, written from KMIP 1.4 §9.1) accepts,
    the library's decoder reads as the same tree — for every byte string, no length bound. -/
theorem strict_accepts_imply_lenient (bs : Bytes) (t : Item) (h : specDecode bs = some t) :
    unmarshalValue bs = .ok t :=
  unmarshalValue_of_specDecode bs t h

/-- 4'. hence a strictly valid input (which may still be non-canonical: the specification allows
    over-long big integers) re-encodes to bytes that BOTH parsers read back as the same tree. -/
theorem strict_reencode_fixpoint (bs : Bytes) (t : Item) (hlen : bs.length < 2 ^ 32)
    (h : specDecode bs = some t) :
    unmarshalValue (enc t) = .ok t ∧ specDecode (enc t) = some t := by
  have hl := strict_accepts_imply_lenient bs t h
  have hr : t.InRange :=
    (Item.InRange_iff0 t).2 ⟨specDecode_tag_pos bs t h, decoded_in_range bs t hlen hl⟩
  refine ⟨decode_reencode_fixpoint bs t hlen hl, ?_⟩
  have hs := size_le_length_aux t
  have := specParse_enc_aux t hr ((enc t).length + 1) (by omega) []
  rw [List.append_nil] at this
  simp [specDecode, this]

set_option maxRecDepth 8192 in
/-- non-vacuity: the strict parser accepts the over-long big integer (a non-canonical input)… -/
theorem strict_accepts_big16 : specDecode inBig16 = some (.big 0x42000B 1) := by rfl

example : unmarshalValue inBig16 = .ok (.big 0x42000B 1) :=
  strict_accepts_imply_lenient _ _ strict_accepts_big16

example : specDecode (enc (.big 0x42000B 1)) = some (.big 0x42000B 1) :=
  (strict_reencode_fixpoint inBig16 _ (by decide) strict_accepts_big16).2

set_option maxRecDepth 8192 in
/-- …and the implication is strict: these accepted inputs are rejected by the strict parser
    (non-zero padding, non-aligned big integer, tag-0 child, trailing item, tag-0 root, garbage
    boolean). -/
example : specDecode inPad = none ∧ specDecode inBig3 = none ∧ specDecode inTag0Child = none ∧
    specDecode inTrailing = none ∧ specDecode inRoot0 = none ∧ specDecode inBoolFF = none :=
  ⟨rfl, rfl, rfl, rfl, rfl, rfl⟩

/-! ### the two text encodings

The statements of this section are those of `Kmip.C04` (§7 of Props/C04.lean), restated here so that the
check of C18 builds them, audits their axioms and requires their presence: they are part of what C18
claims. `xmlRead`/`jsonRead` are the models of the XML/JSON readers on PARSED documents (`XElem`/`JVal`:
the tokenisers of encoding/xml and encoding/json are not modelled), for any hint function `H` (what a
typed caller tells the reader about enumeration and mask tags, POSITION BY POSITION: `Hints` is
`List Nat → Int → Hint`, root-first path of child indices then the tag, so two elements with the same tag
— two `AttributeValue`s — may be read with different enumeration types; the hints that look at the tag
only are `Hints.ofTag f`; `noHints` = the generic `ttlv.Value`, at every position),
any registry `T` with the stated well-formedness (proved of the regenerated one: `genTables_wf`,
`genTables_bounded`) and any RFC 3339 formatter/parser pair satisfying `Rfc3339.Lawful`. -/

open Kmip.Reg Kmip.Lex in
/-- XML: whatever document the reader accepts, the writer's document for the decoded tree is read back
    as the very same tree … -/
theorem xml_fixpoint_full {T : Tables} (hT : T.WF) (hB : T.Bounded) {R : Rfc3339} (hR : R.Lawful)
    {H : Hints} (e : XElem) (t : XItem) (h : xmlRead T R H e = .ok t) :
    xmlRead T R H (xmlWrite T R t) = .ok t :=
  C04.xml_fixpoint_full hT hB hR e t h

open Kmip.Reg Kmip.Lex in
/-- … so the second re-encoding is the first (the form the property is worded in). -/
theorem xml_second_reencode_identical {T : Tables} (hT : T.WF) (hB : T.Bounded) {R : Rfc3339}
    (hR : R.Lawful) {H : Hints} (e : XElem) (t : XItem) (h : xmlRead T R H e = .ok t) :
    ∃ t', xmlRead T R H (xmlWrite T R t) = .ok t' ∧ xmlWrite T R t' = xmlWrite T R t :=
  ⟨t, C04.xml_fixpoint_full hT hB hR e t h, rfl⟩

open Kmip.Reg Kmip.Lex in
/-- JSON: likewise. -/
theorem json_fixpoint_full {T : Tables} (hT : T.WF) (hB : T.Bounded) {R : Rfc3339} (hR : R.Lawful)
    {H : Hints} (j : JVal) (t : XItem) (h : jsonRead T R H j = .ok t) :
    jsonRead T R H (jsonWrite T R t) = .ok t :=
  C04.json_fixpoint_full hT hB hR j t h

open Kmip.Reg Kmip.Lex in
theorem json_second_reencode_identical {T : Tables} (hT : T.WF) (hB : T.Bounded) {R : Rfc3339}
    (hR : R.Lawful) {H : Hints} (j : JVal) (t : XItem) (h : jsonRead T R H j = .ok t) :
    ∃ t', jsonRead T R H (jsonWrite T R t) = .ok t' ∧ jsonWrite T R t' = jsonWrite T R t :=
  ⟨t, C04.json_fixpoint_full hT hB hR j t h, rfl⟩

open Kmip.Reg Kmip.Lex in
/-- through the OTHER text encoding: what the XML reader accepted is read back identically from its
    JSON encoding … -/
theorem xml_to_json {T : Tables} (hT : T.WF) (hB : T.Bounded) {R : Rfc3339} (hR : R.Lawful) {H : Hints}
    (e : XElem) (t : XItem) (h : xmlRead T R H e = .ok t) : jsonRead T R H (jsonWrite T R t) = .ok t :=
  C04.xml_to_json hT hB hR e t h

open Kmip.Reg Kmip.Lex in
/-- … and conversely. -/
theorem json_to_xml {T : Tables} (hT : T.WF) (hB : T.Bounded) {R : Rfc3339} (hR : R.Lawful) {H : Hints}
    (j : JVal) (t : XItem) (h : jsonRead T R H j = .ok t) : xmlRead T R H (xmlWrite T R t) = .ok t :=
  C04.json_to_xml hT hB hR j t h

open Kmip.Reg Kmip.Lex in
/-- instantiated: the registry regenerated from the current Go tree, the generic decoder. -/
theorem xml_fixpoint_generic {R : Rfc3339} (hR : R.Lawful) (e : XElem) (t : XItem)
    (h : xmlRead C04.genTables R noHints e = .ok t) :
    xmlRead C04.genTables R noHints (xmlWrite C04.genTables R t) = .ok t :=
  C04.xml_fixpoint_generic hR e t h

open Kmip.Reg Kmip.Lex in
theorem json_fixpoint_generic {R : Rfc3339} (hR : R.Lawful) (j : JVal) (t : XItem)
    (h : jsonRead C04.genTables R noHints j = .ok t) :
    jsonRead C04.genTables R noHints (jsonWrite C04.genTables R t) = .ok t :=
  C04.json_fixpoint_generic hR j t h

/-- the readers before /repo a1c0e70 are refuted: tag text `0x-1` was accepted, re-encoded and read back
    as another tag (XML and JSON). -/
theorem old_tag_fixpoint_false :
    C04.stableXml C04.oldTagTables C04.toyR C04.negTagXml = false ∧
      C04.stableJson C04.oldTagTables C04.toyR C04.negTagJson = false :=
  C04.old_tag_fixpoint_false

/-- the readers before /repo df9dac3 are refuted: a zone-offset date of local year 10000 was accepted and
    its re-encoding rejected; the current reader rejects the input. -/
theorem old_date_fixpoint_false :
    C04.stableXml C04.genTables (C04.zoneR false) C04.zoneDateXml = false ∧
      C04.isErr (Kmip.Lex.xmlRead C04.genTables (C04.zoneR true) Kmip.Lex.noHints C04.zoneDateXml) = true :=
  C04.old_date_fixpoint_false

/-- non-vacuity: a document in alternative lexical forms (hexadecimal Integer, decimal Enumeration,
    `TTLV tag=` for a named tag) is ACCEPTED, so the hypothesis of `xml_fixpoint_generic` holds of it. -/
example : C04.isOk (Kmip.Lex.xmlRead C04.genTables C04.toyR Kmip.Lex.noHints C04.altXml) = true := by
  decide +kernel

/-! ### between the binary and the text encodings (generic layer)

"The same holds through each of the two other encodings whenever the decoded text strings are
representable there and the dates lie in years 1 to 9999." At the element layer text strings are byte
sequences (which of them survive the escaper/tokeniser pairs of encoding/xml and encoding/json is outside
the model); the date condition is `Item.DatesIn R` (every date passes the readers' own year test
`R.inYears`); the only other condition is a size one in the text → binary direction, `Item.Fits`: the
text formats bound neither the length of a string nor the size of a big integer, the binary format has
32-bit length fields. `Item.lift` is the annotated tree of the generic text codecs (`noHints`). -/

open Kmip.Reg Kmip.Lex in
/-- XML → binary: the tree the XML reader returns (any hints: generic or typed caller), once its
    annotations are erased — which is what the binary encoder sees —, is read back by the binary decoder
    from its binary encoding. -/
theorem xml_to_binary {T : Tables} (hB : T.Bounded) {R : Rfc3339} {H : Hints} (e : XElem) (t : XItem)
    (h : xmlRead T R H e = .ok t) (hf : t.erase.Fits) : unmarshalValue (enc t.erase) = .ok t.erase :=
  unmarshalValue_enc0 _ (XItem.erase_inRange0 t (C04.xml_read_representable hB e t h) hf)

open Kmip.Reg Kmip.Lex in
/-- JSON → binary. -/
theorem json_to_binary {T : Tables} (hB : T.Bounded) {R : Rfc3339} (hR : R.Lawful) {H : Hints} (j : JVal)
    (t : XItem) (h : jsonRead T R H j = .ok t) (hf : t.erase.Fits) :
    unmarshalValue (enc t.erase) = .ok t.erase :=
  unmarshalValue_enc0 _ (XItem.erase_inRange0 t (C04.json_read_representable hB hR j t h) hf)

open Kmip.Reg Kmip.Lex in
/-- binary → XML and binary → JSON: the tree the binary decoder returns for ANY accepted byte string,
    when its dates can be written, is read back from its XML and from its JSON encoding; and erasing the
    annotations of the text tree gives the binary tree back. -/
theorem binary_to_text {T : Tables} (hT : T.WF) {R : Rfc3339} (hR : R.Lawful) (bs : Bytes) (t : Item)
    (hlen : bs.length < 2 ^ 32) (h : unmarshalValue bs = .ok t) (hd : t.DatesIn R) :
    xmlRead T R noHints (xmlWrite T R t.lift) = .ok t.lift ∧
      jsonRead T R noHints (jsonWrite T R t.lift) = .ok t.lift ∧ t.lift.erase = t :=
  have hr := Item.lift_rep0 t (decoded_in_range bs t hlen h) hd
  ⟨C04.xml_roundtrip0 hT hR t.lift hr, C04.json_roundtrip0 hT hR t.lift hr, Item.erase_lift t⟩

open Kmip.Reg Kmip.Lex in
/-- binary → XML → JSON → binary (and, the two text hops being symmetric, binary → JSON → XML → binary):
    every hop is accepted and the chain ends on the tree it started from, hence on the same bytes `enc t`. -/
theorem binary_xml_json_binary {T : Tables} (hT : T.WF) {R : Rfc3339} (hR : R.Lawful) (bs : Bytes) (t : Item)
    (hlen : bs.length < 2 ^ 32) (h : unmarshalValue bs = .ok t) (hd : t.DatesIn R) :
    ∃ x, xmlRead T R noHints (xmlWrite T R t.lift) = .ok x ∧
      ∃ j, jsonRead T R noHints (jsonWrite T R x) = .ok j ∧ unmarshalValue (enc j.erase) = .ok t := by
  obtain ⟨hx, hj, he⟩ := binary_to_text hT hR bs t hlen h hd
  refine ⟨t.lift, hx, t.lift, hj, ?_⟩
  rw [he]
  exact decode_reencode_fixpoint bs t hlen h

open Kmip.Reg Kmip.Lex in
theorem binary_json_xml_binary {T : Tables} (hT : T.WF) {R : Rfc3339} (hR : R.Lawful) (bs : Bytes) (t : Item)
    (hlen : bs.length < 2 ^ 32) (h : unmarshalValue bs = .ok t) (hd : t.DatesIn R) :
    ∃ j, jsonRead T R noHints (jsonWrite T R t.lift) = .ok j ∧
      ∃ x, xmlRead T R noHints (xmlWrite T R j) = .ok x ∧ unmarshalValue (enc x.erase) = .ok t := by
  obtain ⟨hx, hj, he⟩ := binary_to_text hT hR bs t hlen h hd
  refine ⟨t.lift, hj, t.lift, hx, ?_⟩
  rw [he]
  exact decode_reencode_fixpoint bs t hlen h

open Kmip.Reg Kmip.Lex in
/-- XML → binary → JSON → XML for the generic decoder: the binary hop loses nothing (`lift ∘ erase` is the
    identity on what the generic text readers return), so the chain ends on the tree it started from. -/
theorem xml_binary_json_xml {T : Tables} (hT : T.WF) (hB : T.Bounded) {R : Rfc3339} (hR : R.Lawful)
    (e : XElem) (t : XItem) (h : xmlRead T R noHints e = .ok t) (hf : t.erase.Fits) :
    ∃ b, unmarshalValue (enc t.erase) = .ok b ∧
      ∃ j, jsonRead T R noHints (jsonWrite T R b.lift) = .ok j ∧ xmlRead T R noHints (xmlWrite T R j) = .ok t := by
  have hl : t.erase.lift = t := XItem.lift_erase t (C04.xml_read_representable hB e t h)
  refine ⟨t.erase, xml_to_binary hB e t h hf, t, ?_, xml_fixpoint_full hT hB hR e t h⟩
  rw [hl]
  exact xml_to_json hT hB hR e t h

open Kmip.Reg Kmip.Lex in
/-- JSON → binary → XML → JSON for the generic decoder. -/
theorem json_binary_xml_json {T : Tables} (hT : T.WF) (hB : T.Bounded) {R : Rfc3339} (hR : R.Lawful)
    (j : JVal) (t : XItem) (h : jsonRead T R noHints j = .ok t) (hf : t.erase.Fits) :
    ∃ b, unmarshalValue (enc t.erase) = .ok b ∧
      ∃ x, xmlRead T R noHints (xmlWrite T R b.lift) = .ok x ∧ jsonRead T R noHints (jsonWrite T R x) = .ok t := by
  have hl : t.erase.lift = t := XItem.lift_erase t (C04.json_read_representable hB hR j t h)
  refine ⟨t.erase, json_to_binary hB hR j t h hf, t, ?_, json_fixpoint_full hT hB hR j t h⟩
  rw [hl]
  exact json_to_xml hT hB hR j t h

/-- non-vacuity of the binary → text direction: the over-long big integer `inBig16` is accepted, has no
    dates, and its tree is read back from both text encodings (regenerated registry, toy RFC 3339). -/
example : Kmip.Lex.xmlRead C04.genTables C04.toyR Kmip.Lex.noHints
      (Kmip.Lex.xmlWrite C04.genTables C04.toyR (Item.big 0x42000B 1).lift) = .ok (Item.big 0x42000B 1).lift :=
  (binary_to_text C04.genTables_wf C04.toyR_lawful inBig16 _ (by decide) noncanonical_examples.2.1.1
    (by simp [Item.DatesIn])).1

/-- non-vacuity of the text → binary direction: the document in alternative lexical forms `C04.altXml` is
    accepted; the hypothesis of `xml_to_binary` holds of it. -/
example : ∃ t, Kmip.Lex.xmlRead C04.genTables C04.toyR Kmip.Lex.noHints C04.altXml = .ok t := by
  have h : C04.isOk (Kmip.Lex.xmlRead C04.genTables C04.toyR Kmip.Lex.noHints C04.altXml) = true := by
    decide +kernel
  cases hx : Kmip.Lex.xmlRead C04.genTables C04.toyR Kmip.Lex.noHints C04.altXml with
  | ok t => exact ⟨t, rfl⟩
  | err _ => rw [hx] at h; cases h
  | panic _ => rw [hx] at h; cases h

/-! ### the length hypothesis cannot be dropped -/

/-- the statement without `bs.length < 2^32`. It is FALSE (of the model and, on a 64-bit platform,
    of the code): `ttlvWriter.writeLength` stores `uint32(length)`, so a big integer whose canonical
    form is 2^32 bytes long is written with the length field `00000000`. -/
def C18_binary_full : Prop :=
  ∀ (bs : Bytes) (t : Item), unmarshalValue bs = .ok t → unmarshalValue (enc t) = .ok t

/-- counterexample (4 GiB + 8 bytes, proved symbolically, nothing is evaluated): the BigInteger
    `01 00 … 00` of 2^32 − 1 bytes plus one pad byte is accepted; its value 256^(2^32−2) needs
    2^32 bytes in 8-aligned two's complement; the re-encoding announces length 0 and is rejected
    by the decoder as an empty big integer. -/
theorem C18_binary_full_false : ¬ C18_binary_full := by
  intro h
  obtain ⟨k, hk⟩ : ∃ k, k + 2 = 2 ^ 32 := ⟨2 ^ 32 - 2, by decide⟩
  obtain ⟨h1, h2⟩ := hugeBig_counterexample k hk
  have h3 := h _ _ h1
  rw [h2] at h3
  cases h3

/-- the counterexample is 8 bytes above the bound of the theorems. -/
example (k : Nat) (hk : k + 2 = 2 ^ 32) : (hugeBigInput k).length = 2 ^ 32 + 8 := by
  simp only [hugeBigInput, List.length_append, hdr_length, List.length_cons, List.length_replicate,
    List.length_nil, padForLen, Nat.reducePow] at hk ⊢
  omega

end Kmip.C18
