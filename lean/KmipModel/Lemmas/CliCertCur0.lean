/-
  Certificate obligations, parts 0..7 of 64 of the `current` client system (kernel evaluation; 8 modules
  so that lake checks them in parallel; small parts keep the kernel's memory small).
  Assembled in `Lemmas/CliCert.lean`.
-/
import KmipModel.Model.CliConn
import KmipModel.Gen.CertCliConn
namespace Kmip.CliCert
open Kmip.CliLts Kmip.CliConn Kmip.Gen.CertCliConn

theorem cuClosed0 : partClosed (sys current) codec certCurrent cuP0 = true := by decide +kernel
theorem cuSafe0 : partSafe codec (badPartial current) cuP0 = true := by decide +kernel
theorem cuClosed1 : partClosed (sys current) codec certCurrent cuP1 = true := by decide +kernel
theorem cuSafe1 : partSafe codec (badPartial current) cuP1 = true := by decide +kernel
theorem cuClosed2 : partClosed (sys current) codec certCurrent cuP2 = true := by decide +kernel
theorem cuSafe2 : partSafe codec (badPartial current) cuP2 = true := by decide +kernel
theorem cuClosed3 : partClosed (sys current) codec certCurrent cuP3 = true := by decide +kernel
theorem cuSafe3 : partSafe codec (badPartial current) cuP3 = true := by decide +kernel
theorem cuClosed4 : partClosed (sys current) codec certCurrent cuP4 = true := by decide +kernel
theorem cuSafe4 : partSafe codec (badPartial current) cuP4 = true := by decide +kernel
theorem cuClosed5 : partClosed (sys current) codec certCurrent cuP5 = true := by decide +kernel
theorem cuSafe5 : partSafe codec (badPartial current) cuP5 = true := by decide +kernel
theorem cuClosed6 : partClosed (sys current) codec certCurrent cuP6 = true := by decide +kernel
theorem cuSafe6 : partSafe codec (badPartial current) cuP6 = true := by decide +kernel
theorem cuClosed7 : partClosed (sys current) codec certCurrent cuP7 = true := by decide +kernel
theorem cuSafe7 : partSafe codec (badPartial current) cuP7 = true := by decide +kernel

end Kmip.CliCert
