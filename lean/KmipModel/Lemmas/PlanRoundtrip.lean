/-
  C01 — definitions for the typed round trip (`Schema.unambiguous`, `normK`/`norm`, `Conforms`,
  `Val.depth`, `ContentEq`) and the first layer of helper lemmas (stage 0: cursor bridge, stage 1:
  scalar kinds).  Property theorems live in `Props/C01.lean`.

  Everything that depends on the regenerated schema is an executable `Bool` check
  (`Schema.unambiguous`), discharged for `Gen.schema` by `decide +kernel`.
-/
import KmipModel.Model.Plan
import KmipModel.Lemmas.ReaderLemmas
namespace Kmip

deriving instance DecidableEq for Field

/-! ## 1. Kinds -/

/-- kinds encoded as exactly one leaf item. -/
def Kind.scalar : Kind → Bool
  | .i32 | .i64 | .u8 | .u16 | .u32 | .bool | .text | .bytes | .date | .interval | .big
  | .enum _ | .mask _ => true
  | _ => false

/-- kinds whose encoder always emits exactly one item (for a conforming value). -/
def Kind.definite : Kind → Bool
  | .any | .anyStruct | .struct _ => true
  | k => k.scalar

/-- strip one pointer / slice level. -/
def Kind.base : Kind → Kind
  | .ptr k => k
  | .slice k => k
  | k => k

/-- kinds whose Go value is an integer and whose zero value is `0`. -/
def Kind.intLike : Kind → Bool
  | .i32 | .i64 | .u8 | .u16 | .u32 | .enum _ | .mask _ | .interval => true
  | _ => false

/-- `v` is THE zero value of kind `k` (for the kinds on which `omitempty` / version gating are used:
    everything but structures and dates). -/
def isZeroOfKind (k : Kind) (v : Val) : Bool :=
  match k, v with
  | .bool, .bool b => !b
  | .text, .text s => s.isEmpty
  | .bytes, .bytes b => b.isNone
  | .big, .big x => x == 0
  | .ptr _, .ptr x => x.isNone
  | .slice _, .list xs => xs.isEmpty
  | .iface, .iface x => x.isNone
  | .any, .any x => x.isNone
  | .anyStruct, .anyStruct its => its.isEmpty
  | k, .int x => k.intLike && x == 0
  | _, _ => false

/-- kinds for which `isZeroOfKind` characterises Go's `IsZero` (not needed by the proofs: it certifies
    that `Conforms` does not exclude any zero value of a skippable field). -/
def Kind.zeroFaithful : Kind → Bool
  | .struct _ | .date | .unsupported | .i8 | .i16 | .u64 => false
  | _ => true

/-- shape of a field's kind: a definite kind, or a pointer to / slice of a definite kind. -/
def Kind.shapeOK : Kind → Bool
  | .ptr k | .slice k => k.definite
  | .iface => false
  | k => k.definite

/-! ## 2. The structural condition on the schema -/

def StructDef.encOnly (d : StructDef) : Bool := d.encCustom && !d.decCustom

/-- structures that are only decoded in the context of their parent's hand-written decoder:
    the union-like structs with an encode-only codec (CredentialValue, KeyValue, KeyMaterial) and
    reflective structs that directly contain one (PlainKeyValue). -/
def Schema.ctxOnly (S : Schema) (d : StructDef) : Bool :=
  d.encOnly || (!d.encCustom && !d.decCustom &&
    d.fields.any fun f => match f.kind.base with
      | .struct j => (S.structDef j).encOnly
      | _ => false)

/-- kinds that `decK` can decode on its own. -/
def Schema.decodable (S : Schema) (k : Kind) : Bool :=
  match k.base with
  | .struct j => !S.ctxOnly (S.structDef j)
  | .iface => false
  | _ => true

/-- a field that always emits exactly one item. -/
def Field.always (f : Field) : Bool := !f.omitempty && f.vrange.isNone && f.kind.definite

/-- DESIGN.md appendix C: tags of the fields up to and including the first one that always emits. -/
def firstTags : List Field → List Nat
  | [] => []
  | f :: fs => if f.always then [f.tag] else f.tag :: firstTags fs

/-- a field that may emit no item or several must not share its tag with any field that can
    follow it immediately on the wire. -/
def unamb : List Field → Bool
  | [] => true
  | f :: fs => (f.always || !(firstTags fs).contains f.tag) && unamb fs

/-- structure kinds made of unwrapped scalar fields (ProtocolVersion): their codec neither reads nor
    writes the version cell. -/
def Schema.plainKind (S : Schema) : Kind → Bool
  | .struct id =>
    let d := S.structDef id
    !d.encCustom && !d.decCustom &&
      d.fields.all fun f => f.kind.scalar && !f.omitempty && !f.setVersion && f.vrange.isNone && !f.dynTag
  | _ => false

def Schema.fieldOK (S : Schema) (f : Field) : Bool :=
  !f.dynTag && decide (0 < f.tag) && S.decodable f.kind && f.kind.shapeOK &&
  (!(f.omitempty || f.vrange.isSome) || f.kind.zeroFaithful) &&
  (!f.setVersion || (!f.omitempty && f.vrange.isNone && S.plainKind f.kind))

/-- condition on a reflectively encoded and decoded struct. -/
def Schema.reflOK (S : Schema) (fs : List Field) : Bool := fs.all S.fieldOK && unamb fs

def Field.plainWith (f : Field) (tag : Nat) : Bool :=
  f.tag == tag && !f.omitempty && !f.setVersion && f.vrange.isNone && !f.dynTag
def Field.optWith (f : Field) (tag : Nat) : Bool :=
  f.tag == tag && f.omitempty && !f.setVersion && f.vrange.isNone && !f.dynTag

def Kind.isEnum : Kind → Bool
  | .enum _ => true
  | _ => false

def fieldDflt : Field := { tag := 0, kind := .unsupported }

/-- the dynamic types behind interfaces: a definite kind or a pointer to one, decodable. -/
def Schema.dynOK (S : Schema) (dy : Dyn) : Bool :=
  (match dy.kind with
   | .ptr k => k.definite
   | k => k.definite) && S.decodable dy.kind

/-- the pointer members of a union-like struct. -/
def Schema.unionKindsOK (S : Schema) (ks : List Kind) : Bool :=
  ks.all fun k => match k with
    | .ptr k' => k'.definite && S.decodable k'
    | _ => false

/-- shape the hand-written decoders rely on, per codec. The tags are the constants of the decoder
    (model: `T.*`); the reflective encoder uses the struct tags of the schema: they must agree. -/
def Schema.customShapeOK (S : Schema) (d : StructDef) : Bool :=
  let f (i : Nat) : Field := d.fields.getD i fieldDflt
  let msgExt : Kind := .ptr (.struct (msgExtId S))
  if d.custom = Cust.requestBatchItem then
    d.encCustom && (f 0).kind.isEnum && (f 3).kind == msgExt && S.decodable msgExt
  else if d.custom = Cust.responseBatchItem then
    d.encCustom && (f 0).kind.isEnum && (f 2).kind.isEnum && (f 3).kind.isEnum
      && (f 7).kind == msgExt && S.decodable msgExt
  else if d.custom = Cust.unknownPayload then d.encCustom
  else if d.custom = Cust.attr then
    !d.encCustom && d.fields == [{ tag := T.attributeName, kind := .text },
      { tag := T.attributeIndex, kind := .ptr .i32 }, { tag := T.attributeValue, kind := .iface }]
  else if d.custom = Cust.credential then
    !d.encCustom && d.fields.length == 2 && (f 0).plainWith T.credentialType && (f 0).kind.isEnum
      && (f 1).plainWith T.credentialValue
      && (match (f 1).kind with
          | .struct cv =>
            let dcv := S.structDef cv
            dcv.encCustom && dcv.custom == Cust.credentialValue
              && customFieldKinds S Cust.credentialValue == dcv.fields.map (·.kind)
              && S.unionKindsOK (dcv.fields.map (·.kind))
          | _ => false)
  else if d.custom = Cust.keyBlock then
    !d.encCustom && d.fields.length == 6
      && (f 0).plainWith T.keyFormatType && (f 0).kind.isEnum
      && (f 1).optWith T.keyCompressionType && (f 1).kind.isEnum
      && (f 2).plainWith T.keyValue
      && (f 3).optWith T.cryptographicAlgorithm && (f 3).kind.isEnum
      && (f 4).optWith T.cryptographicLength && (f 4).kind == .i32
      && (f 5).plainWith T.keyWrappingData
      && (match (f 5).kind with | .ptr k => k.definite && S.decodable k | _ => false)
      && (match (f 2).kind with
          | .ptr (.struct kv) =>
            let dkv := S.structDef kv
            dkv.encCustom && dkv.custom == Cust.keyValue
              && (match customFieldKinds S Cust.keyValue with
                  | [.ptr .bytes, .ptr (.struct pkv)] =>
                    let dp := S.structDef pkv
                    !dp.encCustom && !dp.decCustom
                      && (match dp.fields with
                          | [g0, g1] =>
                            g0.plainWith T.keyMaterial && g1.plainWith T.attr
                              && g1.kind == .slice (.struct (attributeId S))
                              && S.decodable (.struct (attributeId S))
                              && (match g0.kind with
                                  | .struct km =>
                                    let dkm := S.structDef km
                                    dkm.encCustom && dkm.custom == Cust.keyMaterial
                                      && S.unionKindsOK (customFieldKinds S Cust.keyMaterial)
                                  | _ => false)
                          | _ => false)
                  | _ => false)
          | _ => false)
  else if d.custom = Cust.getResponse then
    !d.encCustom && d.fields.length == 3
      && (f 0).plainWith T.objectType && (f 0).kind.isEnum
      && (f 1).plainWith T.uniqueIdentifier && (f 1).kind == .text
      && (f 2) == { tag := 0, kind := .iface, dynTag := true }
  else if d.custom = Cust.registerRequest then
    !d.encCustom && d.fields.length == 3
      && (f 0).plainWith T.objectType && (f 0).kind.isEnum
      && (f 1).plainWith T.templateAttribute && (f 1).kind.definite && S.decodable (f 1).kind
      && (f 2) == { tag := 0, kind := .iface, dynTag := true }
  else if d.custom = Cust.exportResponse then
    !d.encCustom && d.fields.length == 4
      && (f 0).plainWith T.objectType && (f 0).kind.isEnum
      && (f 1).plainWith T.uniqueIdentifier && (f 1).kind == .text
      && (f 2).plainWith T.attr
      && (match (f 2).kind with | .slice k => k.definite && S.decodable k | _ => false)
      && (f 3) == { tag := 0, kind := .iface, dynTag := true }
  else if d.custom = Cust.importRequest then
    !d.encCustom && d.fields.length == 5
      && (f 0).plainWith T.uniqueIdentifier && (f 0).kind == .text
      && (f 1).optWith T.replaceExisting && (f 1).kind == .bool
      && (f 2).optWith T.keyWrapType && (f 2).kind.isEnum
      && (f 3).plainWith T.attr
      && (match (f 3).kind with | .slice k => k.definite && S.decodable k | _ => false)
      && (f 4) == { tag := 0, kind := .iface, dynTag := true }
  else false

def Schema.structOK (S : Schema) (d : StructDef) : Bool :=
  if d.decCustom then S.customShapeOK d
  else if d.encCustom then
    (d.custom == Cust.credentialValue || d.custom == Cust.keyValue || d.custom == Cust.keyMaterial)
  else if S.ctxOnly d then true
  else S.reflOK d.fields

/-- THE structural condition of C01. -/
def Schema.fieldEncOK (S : Schema) (f : Field) : Bool :=
  (!f.omitempty || f.kind.zeroFaithful) && (!f.setVersion || S.plainKind f.kind)
    && (!f.dynTag || f.kind == .iface)

def Schema.unambiguous (S : Schema) : Bool :=
  S.structs.all S.structOK && S.dyns.all S.dynOK
    && S.structs.all (fun d => d.fields.all S.fieldEncOK)
    -- an object travels under its own default tag, right after an attribute list (Export, Import)
    && S.objects.all (fun p => !([T.attr, T.replaceExisting, T.keyWrapType].contains (S.dyn p.2).defTag))

/-! ## 3. Conformance and normalisation, as one executable walk over value and schema -/

instance (w : Nat) (v : Int) : Decidable (inInt w v) := by unfold inInt; infer_instance

/-- index of the first member of a union-like struct that is not a nil pointer. -/
def firstNonNil : List Val → Option Nat
  | [] => none
  | .ptr none :: xs => (firstNonNil xs).map (· + 1)
  | _ :: _ => some 0

/-- the remaining members of a union-like struct are nil pointers (and the encoder's fuel covers
    them: one unit per member). -/
def nilRest : Nat → List Kind → List Val → Bool
  | 0, _, _ => false
  | _, [], [] => true
  | fuel + 1, .ptr _ :: ks, .ptr none :: xs => nilRest fuel ks xs
  | _, _, _ => false

/-- `KeyMaterial.decode`: which member a key format selects. -/
def keyMaterialIndex (fmt : Nat) : Option Nat :=
  if fmt = 1 ∨ fmt = 6 ∨ fmt = 3 ∨ fmt = 4 ∨ fmt = 5 ∨ fmt = 2 then some 0
  else if fmt = 7 then some 1
  else if fmt = 0xA then some 2
  else if fmt = 0xB then some 3
  else if fmt = 0xE then some 4
  else if fmt = 0xF then some 5
  else if fmt = 0x14 then some 6
  else if fmt = 0x15 then some 7
  else none

/-- the hand-written codecs of the batch items treat an empty byte string as absent. -/
def normBid : Option Bytes → Option Bytes
  | some b => if b.isEmpty then none else some b
  | none => none

def isU32 (x : Int) : Bool := decide (0 ≤ x ∧ x < 4294967296)

/-- value-level side conditions of the hand-written decoders (on the normalised struct value):
    the dynamic type behind an interface is the one the decoder reconstructs from context. -/
def customOk (S : Schema) (code : Nat) (v : Val) : Bool :=
  if code = Cust.attr then
    match v.field 0, v.field 2 with
    | .text name, .iface (some (d, _)) => d == S.attrDyn name
    | _, _ => false
  else if code = Cust.credential then
    match v.field 0, v.field 1 with
    | .int t, .struct cvs =>
      (t == 1 || t == 2 || t == 3) && firstNonNil cvs == some (t.toNat - 1)
    | _, _ => false
  else if code = Cust.keyBlock then
    match v.field 0, v.field 2 with
    | .int fmt, .ptr none => true
    | .int fmt, .ptr (some kv) =>
      (match kv.field 0, kv.field 1 with
       | .ptr (some _), .ptr none => true
       | .ptr none, .ptr (some pkv) =>
         (match pkv.field 0 with
          | .struct kms =>
            (keyMaterialIndex fmt.toNat).isSome && keyMaterialIndex fmt.toNat == firstNonNil kms
          | _ => false)
       | _, _ => false)
    | _, _ => false
  else if code = Cust.getResponse ∨ code = Cust.registerRequest then
    match v.field 0, v.field 2 with
    | .int ot, .iface (some (d, _)) => S.objectDyn ot.toNat == some d
    | _, _ => false
  else if code = Cust.exportResponse then
    match v.field 0, v.field 3 with
    | .int ot, .iface (some (d, _)) => S.objectDyn ot.toNat == some d
    | _, _ => false
  else if code = Cust.importRequest then
    match v.field 4 with
    | .iface (some (d, _)) =>
      (match importObjectType S (v.field 3) with
       | some ot => S.objectDyn ot == some d
       | none => false)
    | _ => false
  else true

/-- the value behind an interface: a definite kind, or a NON-NIL pointer to one (the decoders
    pre-allocate the pointee). -/
def dynValOk (dk : Kind) (x : Val) : Bool :=
  match dk with
  | .ptr _ => (match x with | .ptr (some _) => true | _ => false)
  | k => k.definite

mutual
  /-- conformance check + normalisation + version cell, following `encK` clause by clause
      (same fuel discipline). `none` = the value is not a well-formed value of the kind at this
      version. `some (v', ver')`: `v'` is what the decoder will return, `ver'` the cell afterwards. -/
  def normK (S : Schema) : Nat → Kind → Nat → Val → Option Ver → Option (Val × Option Ver)
    | 0, _, _, _, _ => none
    | fuel + 1, k, tag, v, ver =>
      match k with
      | .i32 | .mask _ =>
        (match v with | .int x => if inInt 32 x then some (.int x, ver) else none | _ => none)
      | .u8 =>
        (match v with | .int x => if 0 ≤ x ∧ x < 256 then some (.int x, ver) else none | _ => none)
      | .u16 =>
        (match v with | .int x => if 0 ≤ x ∧ x < 65536 then some (.int x, ver) else none | _ => none)
      | .u32 | .enum _ | .interval =>
        (match v with | .int x => if isU32 x then some (.int x, ver) else none | _ => none)
      | .i64 | .date =>
        (match v with | .int x => if inInt 64 x then some (.int x, ver) else none | _ => none)
      | .bool => (match v with | .bool b => some (.bool b, ver) | _ => none)
      | .text => (match v with | .text s => some (.text s, ver) | _ => none)
      | .bytes => (match v with | .bytes b => some (.bytes (some (b.getD [])), ver) | _ => none)
      | .big => (match v with | .big x => some (.big x, ver) | _ => none)
      | .ptr k' =>
        (match v with
         | .ptr none => some (.ptr none, ver)
         | .ptr (some x) =>
           if k'.definite then
             (match normK S fuel k' tag x ver with
              | some (x', ver') => some (.ptr (some x'), ver')
              | none => none)
           else none
         | _ => none)
      | .slice k' =>
        (match v with
         | .list xs =>
           if k'.definite then
             (match normSlice S fuel k' tag xs ver with
              | some (xs', ver') => some (.list xs', ver')
              | none => none)
           else none
         | _ => none)
      | .iface =>
        (match v with
         | .iface none => some (.iface none, ver)
         | .iface (some (d, x)) =>
           -- the dynamic type is a definite kind or a non-nil pointer to one
           let dk := (S.dyn d).kind
           if dynValOk dk x then
             (match normK S fuel dk tag x ver with
              | some (x', ver') => some (.iface (some (d, x')), ver')
              | none => none)
           else none
         | _ => none)
      | .any =>
        (match v with
         | .any (some it) => if it.tag = tag then some (.any (some it), ver) else none
         | _ => none)
      | .anyStruct => (match v with | .anyStruct its => some (.anyStruct its, ver) | _ => none)
      | .struct id =>
        (match v with
         | .struct fs =>
           let d := S.structDef id
           if d.encCustom then normCustom S fuel d.custom tag (.struct fs) ver
           else
             (match normFields S fuel d.fields fs ver with
              | some (fs', ver') =>
                if !d.decCustom || customOk S d.custom (.struct fs') then some (.struct fs', ver')
                else none
              | none => none)
         | _ => none)
      | _ => none
  def normSlice (S : Schema) : Nat → Kind → Nat → List Val → Option Ver → Option (List Val × Option Ver)
    | 0, _, _, _, _ => none
    | _, _, _, [], ver => some ([], ver)
    | fuel + 1, k, tag, x :: xs, ver =>
      match normK S fuel k tag x ver with
      | none => none
      | some (x', ver1) =>
        match normSlice S fuel k tag xs ver1 with
        | none => none
        | some (xs', ver2) => some (x' :: xs', ver2)
  /-- fields of a reflectively encoded struct. A skipped field (zero under `omitempty`, or outside
      its version range) must hold the zero value: a message well-formed AT its version does not
      populate the fields of other versions. -/
  def normFields (S : Schema) : Nat → List Field → List Val → Option Ver → Option (List Val × Option Ver)
    | 0, _, _, _ => none
    | _, [], [], ver => some ([], ver)
    | _, [], _ :: _, _ => none
    | _, _ :: _, [], _ => none
    | fuel + 1, f :: fs, v :: vs, ver =>
      let ver1 := if f.setVersion then some v.asVer else ver
      let skipRange := match f.vrange with
        | some r => !(versionIn ver1 r)
        | none => false
      let skipEmpty := f.omitempty && v.isZero
      if skipRange || skipEmpty then
        if isZeroOfKind f.kind v then
          match normFields S fuel fs vs ver1 with
          | none => none
          | some (vs', ver3) => some (v :: vs', ver3)
        else none
      else
        let tag := if f.dynTag then
            (match v with | .iface (some (d, _)) => (S.dyn d).defTag | _ => 0)
          else f.tag
        match normK S fuel f.kind tag v ver1 with
        | none => none
        | some (v', ver2) =>
          match normFields S fuel fs vs ver2 with
          | none => none
          | some (vs', ver3) => some (v' :: vs', ver3)
  /-- values of the structs with a hand-written encoder. -/
  def normCustom (S : Schema) : Nat → Nat → Nat → Val → Option Ver → Option (Val × Option Ver)
    | 0, _, _, _, _ => none
    | fuel + 1, code, tag, v, ver =>
      let msgExt : Kind := .ptr (.struct (msgExtId S))
      if code = Cust.requestBatchItem then
        match v with
        | .struct [.int op, .bytes bid, .iface (some (d, x)), me] =>
          -- the payload is present and of the type registered for the operation
          if isU32 op && d == S.payloadDyn op.toNat false then
            match normK S fuel .iface T.requestPayload (.iface (some (d, x))) ver with
            | none => none
            | some (pl', ver1) =>
              match normK S fuel msgExt T.messageExtension me ver1 with
              | none => none
              | some (me', ver2) => some (.struct [.int op, .bytes (normBid bid), pl', me'], ver2)
          else none
        | _ => none
      else if code = Cust.responseBatchItem then
        match v with
        | .struct [.int op, .bytes bid, .int st, .int rs, .text msg, .bytes acv, pl, me] =>
          let plOk := match pl with
            | .iface none => true
            | .iface (some (d, _)) => decide (0 < op) && d == S.payloadDyn op.toNat true
            | _ => false
          -- the Go encoder writes TagBatchItem whatever tag it is given
          if decide (tag = T.batchItem) && isU32 op && isU32 st && isU32 rs && plOk then
            match normK S fuel .iface T.responsePayload pl ver with
            | none => none
            | some (pl', ver1) =>
              match normK S fuel msgExt T.messageExtension me ver1 with
              | none => none
              | some (me', ver2) =>
                some (.struct [.int op, .bytes (normBid bid), .int st, .int rs, .text msg,
                  .bytes (normBid acv), pl', me'], ver2)
          else none
        | _ => none
      else if code = Cust.unknownPayload then
        match v with
        | .struct [.anyStruct its] => some (.struct [.anyStruct its], ver)
        | _ => none
      else if code = Cust.credentialValue ∨ code = Cust.keyValue ∨ code = Cust.keyMaterial then
        match v with
        | .struct fs =>
          (match normSameTag S fuel (customFieldKinds S code) tag fs ver with
           | some (fs', ver') => some (.struct fs', ver')
           | none => none)
        | _ => none
      else none
  /-- union-like structs: exactly one member is a non-nil pointer. -/
  def normSameTag (S : Schema) : Nat → List Kind → Nat → List Val → Option Ver → Option (List Val × Option Ver)
    | 0, _, _, _, _ => none
    | _, [], _, _, _ => none
    | _, _ :: _, _, [], _ => none
    | fuel + 1, k :: ks, tag, x :: xs, ver =>
      match k with
      | .ptr k' =>
        (match x with
         | .ptr none =>
           (match normSameTag S fuel ks tag xs ver with
            | some (xs', ver') => some (.ptr none :: xs', ver')
            | none => none)
         | .ptr (some y) =>
           if nilRest fuel ks xs then
             (match normK S fuel (.ptr k') tag (.ptr (some y)) ver with
              | some (x', ver') => some (x' :: xs, ver')
              | none => none)
           else none
         | _ => none)
      | _ => none
end

/-! ## 4. Fuel of the decoder: a generous, value-only measure -/

mutual
  /-- an upper bound of the fuel `decK` needs on the encoding of a conforming value. -/
  def Val.depth : Val → Nat
    | .struct fs => Val.depthList fs + 12
    | .ptr (some x) => x.depth + 2
    | .list xs => Val.depthList xs + 2
    | .iface (some (_, x)) => x.depth + 4
    | .any (some it) => it.size + 2
    | .anyStruct its => Item.sizeList its + 2
    | _ => 2
  def Val.depthList : List Val → Nat
    | [] => 2
    | x :: xs => max x.depth (Val.depthList xs) + 1
end

/-! ## 5. Top level -/

/-- fuel `marshal` runs `encK` with. -/
def marshalFuel : Nat := 100000

/-- the resolved tag of `marshal`/`unmarshal`. -/
def topTag (S : Schema) (d tag : Nat) : Nat := if tag = 0 then (S.dyn d).defTag else tag

/-- conformance + normalisation of a top-level value of dynamic type `d` under `tag`. -/
def normTop (S : Schema) (d tag : Nat) (v : Val) : Option (Val × Option Ver) :=
  let dk := (S.dyn d).kind
  if dynValOk dk v && S.dynOK (S.dyn d) then normK S marshalFuel dk (topTag S d tag) v none else none

/-- the normalisation the decoder applies (nil vs empty byte strings; see `norm_content`). -/
def norm (S : Schema) (d tag : Nat) (v : Val) : Val :=
  match normTop S d tag v with
  | some (v', _) => v'
  | none => v

/-- `unmarshal` with an explicit fuel (the model's `unmarshalWith`). -/
abbrev unmarshalFuel := unmarshalWith

/-- a well-formed value of dynamic type `d` (to be sent under `tag`):
    * `wellFormed`: shape, integer ranges, dynamic types, version conformance (the executable walk);
    * `inRange`: the items the encoder produces are representable on the wire (tags in `(0, 2^24)`,
      lengths `< 2^32`): stated on the encoder's output. -/
structure Conforms (S : Schema) (d tag : Nat) (v : Val) : Prop where
  wellFormed : (normTop S d tag v).isSome = true
  inRange : ∀ items ver', encK S marshalFuel (S.dyn d).kind (topTag S d tag) v none = .ok (items, ver') →
      Item.AllInRange items

/-! ## 6. "equal in content" -/

mutual
  /-- equality of Go values up to nil vs empty byte strings. -/
  def ContentEq : Val → Val → Prop
    | .int a, .int b => a = b
    | .bool a, .bool b => a = b
    | .text a, .text b => a = b
    | .bytes a, .bytes b => a.getD [] = b.getD []
    | .big a, .big b => a = b
    | .struct as, .struct bs => ContentEqList as bs
    | .ptr none, .ptr none => True
    | .ptr (some a), .ptr (some b) => ContentEq a b
    | .list as, .list bs => ContentEqList as bs
    | .iface none, .iface none => True
    | .iface (some (d, a)), .iface (some (e, b)) => d = e ∧ ContentEq a b
    | .any a, .any b => a = b
    | .anyStruct a, .anyStruct b => a = b
    | _, _ => False
  def ContentEqList : List Val → List Val → Prop
    | [], [] => True
    | a :: as, b :: bs => ContentEq a b ∧ ContentEqList as bs
    | _, _ => False
end


/-! ## 7. Stage 0 — small bridges -/

theorem Item.allInRange_append : (a b : List Item) →
    (Item.AllInRange (a ++ b) ↔ Item.AllInRange a ∧ Item.AllInRange b)
  | [], b => by simp [Item.AllInRange]
  | x :: a, b => by
    simp only [List.cons_append, Item.AllInRange, Item.allInRange_append a b, and_assoc]

theorem Item.allInRange_singleton (x : Item) : Item.AllInRange [x] ↔ x.InRange := by
  simp [Item.AllInRange]

/-- tag of the item a cursor is positioned on (0 at the end). -/
def htag : List RawItem → Nat
  | [] => 0
  | r :: _ => r.tag

/-- a validated cursor over raw items, nothing pending. -/
abbrev Cur.of (l : List RawItem) : Cur := { items := l, tail := none }

theorem Cur.tag_of (l : List RawItem) : (Cur.of l).tag = htag l := by
  cases l <;> rfl

theorem Item.withTag_self (it : Item) : it.withTag it.tag = it := by
  cases it <;> rfl

theorem Item.withTag_tag (it : Item) (t : Nat) : (it.withTag t).tag = t := by
  cases it <;> rfl

/-! ## 8. Stage 1 — scalar kinds -/

theorem isU32_iff (x : Int) : isU32 x = true ↔ 0 ≤ x ∧ x < 4294967296 := by
  simp [isU32]

theorem ite_some_eq {α : Type} {c : Prop} [Decidable c] {a b : α}
    (h : (if c then some a else none) = some b) : c ∧ a = b := by
  split at h
  · exact ⟨‹c›, Option.some.inj h⟩
  · contradiction

theorem pair_eq {α β : Type} {a a' : α} {b b' : β} (h : (a, b) = (a', b')) : a = a' ∧ b = b' := by
  cases h; exact ⟨rfl, rfl⟩

theorem scalar_rt (S : Schema) (n : Nat) (k : Kind) (hk : k.scalar = true) (tag : Nat) (v v' : Val)
    (ver ver' : Option Ver) (h : normK S (n + 1) k tag v ver = some (v', ver')) :
    ver' = ver ∧ ∃ it, encK S (n + 1) k tag v ver = .ok ([it], ver) ∧ it.tag = tag
      ∧ encK S (n + 1) k tag v' ver = .ok ([it], ver)
      ∧ normK S (n + 1) k tag v' ver = some (v', ver)
      ∧ v'.asInt = v.asInt ∧ (v.isZero = false → v'.isZero = false)
      ∧ (∀ w, normK S (n + 1) k tag v w = some (v', w))
      ∧ (∀ w, encK S (n + 1) k tag v w = .ok ([it], w))
      ∧ (it.InRange → ∀ (fd : Nat) (rs : List RawItem) (w : Option Ver),
          decK S (fd + 1) k tag { items := it.raw :: rs, tail := none } w
            = .ok (v', { items := rs, tail := none }, w)) := by
  cases k <;> simp only [Kind.scalar] at hk <;> try contradiction
  all_goals (cases v <;> simp only [normK] at h <;> try contradiction)
  case i32.int x =>
    obtain ⟨hx, e⟩ := ite_some_eq h; obtain ⟨rfl, rfl⟩ := pair_eq e
    refine ⟨rfl, .int tag x, by simp only [encK], rfl, by simp only [encK], by simp only [normK, if_pos hx], rfl, id,
      fun w => by simp only [normK, if_pos hx], fun w => by simp only [encK], ?_⟩
    intro hr fd rs w
    rw [Item.InRange] at hr
    simp only [decK, Cur.integer_raw tag x rs hr.2.2, Res.ok_bind, Res.pure_eq]
  case mask.int t x =>
    obtain ⟨hx, e⟩ := ite_some_eq h; obtain ⟨rfl, rfl⟩ := pair_eq e
    refine ⟨rfl, .int tag x, by simp only [encK], rfl, by simp only [encK], by simp only [normK, if_pos hx], rfl, id,
      fun w => by simp only [normK, if_pos hx], fun w => by simp only [encK], ?_⟩
    intro hr fd rs w
    rw [Item.InRange] at hr
    simp only [decK, Cur.integer_raw tag x rs hr.2.2, Res.ok_bind, Res.pure_eq]
  case u8.int x =>
    obtain ⟨hx, e⟩ := ite_some_eq h; obtain ⟨rfl, rfl⟩ := pair_eq e
    refine ⟨rfl, .int tag x, by simp only [encK], rfl, by simp only [encK], by simp only [normK, if_pos hx], rfl, id,
      fun w => by simp only [normK, if_pos hx], fun w => by simp only [encK], ?_⟩
    intro hr fd rs w
    rw [Item.InRange] at hr
    simp only [decK, Cur.integer_raw tag x rs hr.2.2, Res.ok_bind, Res.pure_eq, if_neg (by omega : ¬ x < 0)]
  case u16.int x =>
    obtain ⟨hx, e⟩ := ite_some_eq h; obtain ⟨rfl, rfl⟩ := pair_eq e
    refine ⟨rfl, .int tag x, by simp only [encK], rfl, by simp only [encK], by simp only [normK, if_pos hx], rfl, id,
      fun w => by simp only [normK, if_pos hx], fun w => by simp only [encK], ?_⟩
    intro hr fd rs w
    rw [Item.InRange] at hr
    simp only [decK, Cur.integer_raw tag x rs hr.2.2, Res.ok_bind, Res.pure_eq, if_neg (by omega : ¬ x < 0)]
  case u32.int x =>
    obtain ⟨hx, e⟩ := ite_some_eq h; obtain ⟨rfl, rfl⟩ := pair_eq e
    have hx' := (isU32_iff x).1 hx
    refine ⟨rfl, .long tag x, by simp only [encK], rfl, by simp only [encK], by simp only [normK, if_pos hx], rfl, id,
      fun w => by simp only [normK, if_pos hx], fun w => by simp only [encK], ?_⟩
    intro hr fd rs w
    rw [Item.InRange] at hr
    simp only [decK, Cur.longInteger_raw tag x rs hr.2.2, Res.ok_bind, Res.pure_eq, if_neg (by omega : ¬ x < 0)]
  case i64.int x =>
    obtain ⟨hx, e⟩ := ite_some_eq h; obtain ⟨rfl, rfl⟩ := pair_eq e
    refine ⟨rfl, .long tag x, by simp only [encK], rfl, by simp only [encK], by simp only [normK, if_pos hx], rfl, id,
      fun w => by simp only [normK, if_pos hx], fun w => by simp only [encK], ?_⟩
    intro hr fd rs w
    rw [Item.InRange] at hr
    simp only [decK, Cur.longInteger_raw tag x rs hr.2.2, Res.ok_bind, Res.pure_eq]
  case date.int x =>
    obtain ⟨hx, e⟩ := ite_some_eq h; obtain ⟨rfl, rfl⟩ := pair_eq e
    refine ⟨rfl, .date tag x, by simp only [encK], rfl, by simp only [encK], by simp only [normK, if_pos hx], rfl, id,
      fun w => by simp only [normK, if_pos hx], fun w => by simp only [encK], ?_⟩
    intro hr fd rs w
    rw [Item.InRange] at hr
    simp only [decK, Cur.dateTime_raw tag x rs hr.2.2, Res.ok_bind, Res.pure_eq]
  case interval.int x =>
    obtain ⟨hx, e⟩ := ite_some_eq h; obtain ⟨rfl, rfl⟩ := pair_eq e
    have hx' := (isU32_iff x).1 hx
    refine ⟨rfl, .interval tag x.toNat, by simp only [encK, if_neg (by omega : ¬ x < 0)], rfl,
      by simp only [encK, if_neg (by omega : ¬ x < 0)], by simp only [normK, if_pos hx], rfl, id,
      fun w => by simp only [normK, if_pos hx], fun w => by simp only [encK, if_neg (by omega : ¬ x < 0)], ?_⟩
    intro hr fd rs w
    rw [Item.InRange] at hr
    simp only [decK, Cur.interval_raw tag x.toNat rs hr.2.2, Res.ok_bind, Res.pure_eq,
      Int.toNat_of_nonneg hx'.1]
  case enum.int t x =>
    obtain ⟨hx, e⟩ := ite_some_eq h; obtain ⟨rfl, rfl⟩ := pair_eq e
    have hx' := (isU32_iff x).1 hx
    refine ⟨rfl, .enum tag x.toNat, by simp only [encK], rfl,
      by simp only [encK], by simp only [normK, if_pos hx], rfl, id,
      fun w => by simp only [normK, if_pos hx], fun w => by simp only [encK], ?_⟩
    intro hr fd rs w
    rw [Item.InRange] at hr
    simp only [decK, Cur.enum_raw tag x.toNat rs hr.2.2, Res.ok_bind, Res.pure_eq,
      Int.toNat_of_nonneg hx'.1]
  case bool.bool b =>
    obtain ⟨rfl, rfl⟩ := pair_eq (Option.some.inj h)
    refine ⟨rfl, .bool tag b, by simp only [encK], rfl, by simp only [encK], by simp only [normK], rfl, id,
      fun w => by simp only [normK], fun w => by simp only [encK], ?_⟩
    intro hr fd rs w
    simp only [decK, Cur.bool_raw tag b rs, Res.ok_bind, Res.pure_eq]
  case text.text s =>
    obtain ⟨rfl, rfl⟩ := pair_eq (Option.some.inj h)
    refine ⟨rfl, .text tag s, by simp only [encK], rfl, by simp only [encK], by simp only [normK], rfl, id,
      fun w => by simp only [normK], fun w => by simp only [encK], ?_⟩
    intro hr fd rs w
    simp only [decK, Cur.textString_raw tag s rs, Res.ok_bind, Res.pure_eq]
  case bytes.bytes b =>
    obtain ⟨rfl, rfl⟩ := pair_eq (Option.some.inj h)
    refine ⟨rfl, .bytes tag (b.getD []), by simp only [encK], rfl, by simp only [encK, Option.getD_some],
      by simp only [normK, Option.getD_some], rfl, fun _ => by simp [Val.isZero],
      fun w => by simp only [normK], fun w => by simp only [encK], ?_⟩
    intro hr fd rs w
    simp only [decK, Cur.byteString_raw tag _ rs, Res.ok_bind, Res.pure_eq]
  case big.big x =>
    obtain ⟨rfl, rfl⟩ := pair_eq (Option.some.inj h)
    refine ⟨rfl, .big tag x, by simp only [encK], rfl, by simp only [encK], by simp only [normK], rfl, id,
      fun w => by simp only [normK], fun w => by simp only [encK], ?_⟩
    intro hr fd rs w
    simp only [decK, Cur.bigInteger_raw tag x rs, Res.ok_bind, Res.pure_eq]

end Kmip
