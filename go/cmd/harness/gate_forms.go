package main

import (
	"bytes"
	"fmt"
	"reflect"
	"regexp"
	"strings"

	kmip "github.com/ovh/kmip-go"
	"github.com/ovh/kmip-go/ttlv"

	"verifharness/internal/tree"
)

// C05 speaks about "a message encoded for protocol version V" — whatever the way the message is handed to the
// encoders. The Lean model knows values only (a Go pointer, a struct copy, a value boxed in an interface are the
// same model value), so the ways of handing a message over are not expressible there: this part of the gate
// engine is an oracle on the real code. For every generated message and version it hands the SAME message to
// every public encoding entry point, in every shape the entry points accept, and requires the element tree
// (binary) / element skeleton (XML, JSON, text) to be the pinned-table expectation every time.
//
//   shapes  : *T, T (a copy: nothing of it is addressable), **T, *any holding T, *any holding *T, []T, []*T,
//             a field of a carrier struct (typed T, typed *T, `any` holding T, `any` holding *T; the carrier
//             itself passed by value and by pointer)
//   entries : Marshal{TTLV,XML,JSON,Text}, New{TTLV,XML,JSON,Text}Encoder + Any / TagAny, the same on an encoder
//             that was used before and Clear()ed, nested inside Encoder.Struct, after another message with a
//             1.4 header on the same encoder without Clear (binary), Stream.Send (binary)

type gateCodec struct {
	name    string
	marshal func(any) []byte
	newEnc  func() ttlv.Encoder
	skel    func([]byte) (string, error)
}

var gateCodecs = []gateCodec{
	{"ttlv", ttlv.MarshalTTLV, ttlv.NewTTLVEncoder, func(b []byte) (string, error) {
		t, err := tree.Decode(b)
		if err != nil {
			return "", err
		}
		return skelOfTree(t), nil
	}},
	{"xml", ttlv.MarshalXML, ttlv.NewXMLEncoder, skelOfXML},
	{"json", ttlv.MarshalJSON, ttlv.NewJSONEncoder, skelOfJSON},
	{"text", func(x any) []byte { return ttlv.MarshalText(x) }, func() ttlv.Encoder { return ttlv.NewTextEncoder() }, skelOfText},
}

var textLineRe = regexp.MustCompile(`^((?:    )*)([A-Za-z0-9_]+) \((Structure|Integer|LongInteger|BigInteger|Enumeration|Boolean|TextString|ByteString|DateTime|Interval)\): `)

// skelOfText reads the human-readable text form: one element per line, `<indent><Tag> (<Type>): <value>`, four
// spaces of indentation per level. Lines that do not have that form (the rest of a text value holding line
// breaks, the `... empty ...` marker) carry no element.
func skelOfText(doc []byte) (string, error) {
	var sb strings.Builder
	open := 0 // number of structures currently open = depth expected for the next child
	first := true
	for _, ln := range strings.Split(string(doc), "\n") {
		m := textLineRe.FindStringSubmatch(ln)
		if m == nil {
			continue
		}
		depth := len(m[1]) / 4
		if depth > open {
			return "", fmt.Errorf("text form: element at depth %d under %d open structures", depth, open)
		}
		for open > depth {
			sb.WriteByte(')')
			open--
		}
		tg, err := textTag(m[2])
		if err != nil {
			return "", err
		}
		if depth == 0 && !first {
			return "", fmt.Errorf("text form: several root elements")
		}
		if !first {
			sb.WriteByte(' ')
		}
		first = false
		if m[3] == "Structure" {
			fmt.Fprintf(&sb, "(%X", tg)
			open++
		} else {
			fmt.Fprintf(&sb, "%X", tg)
		}
	}
	for ; open > 0; open-- {
		sb.WriteByte(')')
	}
	if first {
		return "", fmt.Errorf("text form: no element")
	}
	return sb.String(), nil
}

// ---- shapes: how the message value is presented --------------------------------------------------------------

const gateOuterTag = 0x540001 // extension tag of the carrier / enclosing structure

type gateAnyCarrier struct{ Carried any }
type gateValCarrier[T any] struct{ Carried T }
type gatePtrCarrier[T any] struct{ Carried *T }

type gateShape struct {
	name    string
	wrapped bool                      // the message appears as the only child of a gateOuterTag structure
	mk      func(x reflect.Value) any // x: *T (the message whose header version is already set)
}

func typedCarriers[T any](m *T) (val, valPtr, ptr, ptrPtr any) {
	return gateValCarrier[T]{*m}, &gateValCarrier[T]{*m}, gatePtrCarrier[T]{m}, &gatePtrCarrier[T]{m}
}

func typedCarrier(x reflect.Value, which int) any {
	var c [4]any
	switch m := x.Interface().(type) {
	case *kmip.RequestMessage:
		c[0], c[1], c[2], c[3] = typedCarriers(m)
	case *kmip.ResponseMessage:
		c[0], c[1], c[2], c[3] = typedCarriers(m)
	default:
		panic("gate: unexpected message type")
	}
	return c[which]
}

var gateShapes = []gateShape{
	{"ptr", false, func(x reflect.Value) any { return x.Interface() }},
	{"value", false, func(x reflect.Value) any { return x.Elem().Interface() }},
	{"ptr-to-ptr", false, func(x reflect.Value) any {
		pp := reflect.New(x.Type())
		pp.Elem().Set(x)
		return pp.Interface()
	}},
	{"ptr-to-any-holding-value", false, func(x reflect.Value) any { a := x.Elem().Interface(); return &a }},
	{"ptr-to-any-holding-ptr", false, func(x reflect.Value) any { a := x.Interface(); return &a }},
	{"slice-of-values", false, func(x reflect.Value) any {
		s := reflect.MakeSlice(reflect.SliceOf(x.Type().Elem()), 1, 1)
		s.Index(0).Set(x.Elem())
		return s.Interface()
	}},
	{"slice-of-ptrs", false, func(x reflect.Value) any {
		s := reflect.MakeSlice(reflect.SliceOf(x.Type()), 1, 1)
		s.Index(0).Set(x)
		return s.Interface()
	}},
	{"carrier{any:value}", true, func(x reflect.Value) any { return gateAnyCarrier{x.Elem().Interface()} }},
	{"carrier{any:ptr}", true, func(x reflect.Value) any { return gateAnyCarrier{x.Interface()} }},
	{"*carrier{any:value}", true, func(x reflect.Value) any { return &gateAnyCarrier{x.Elem().Interface()} }},
	{"*carrier{any:ptr}", true, func(x reflect.Value) any { return &gateAnyCarrier{x.Interface()} }},
	{"carrier{T}", true, func(x reflect.Value) any { return typedCarrier(x, 0) }},
	{"*carrier{T}", true, func(x reflect.Value) any { return typedCarrier(x, 1) }},
	{"carrier{*T}", true, func(x reflect.Value) any { return typedCarrier(x, 2) }},
	{"*carrier{*T}", true, func(x reflect.Value) any { return typedCarrier(x, 3) }},
}

// ---- entries: which public function receives it ---------------------------------------------------------------

type gateEntry struct {
	name    string
	wrapped bool
	binOnly bool
	// needsTag: the entry names the tag itself; carriers have no default tag, so they go through these only
	needsTag bool
	run      func(c *gateCodec, h any, tag int) []byte
}

type gateSink struct{ bytes.Buffer }

func (*gateSink) Close() error { return nil }

var gateEntries = []gateEntry{
	{"Marshal", false, false, false, func(c *gateCodec, h any, _ int) []byte { return c.marshal(h) }},
	{"Encoder.Any", false, false, false, func(c *gateCodec, h any, _ int) []byte {
		e := c.newEnc()
		e.Any(h)
		return e.Bytes()
	}},
	{"Encoder.TagAny", false, false, true, func(c *gateCodec, h any, tag int) []byte {
		e := c.newEnc()
		e.TagAny(tag, h)
		return e.Bytes()
	}},
	{"Encoder.Any-after-Clear", false, false, false, func(c *gateCodec, h any, _ int) []byte {
		e := c.newEnc()
		e.Any(h)
		e.Clear()
		e.Any(h)
		return e.Bytes()
	}},
	{"Encoder.TagAny-after-Clear", false, false, true, func(c *gateCodec, h any, tag int) []byte {
		e := c.newEnc()
		e.TagAny(tag, h)
		e.Clear()
		e.TagAny(tag, h)
		return e.Bytes()
	}},
	{"Encoder.Struct{Any}", true, false, false, func(c *gateCodec, h any, _ int) []byte {
		e := c.newEnc()
		e.Struct(gateOuterTag, func(in *ttlv.Encoder) { in.Any(h) })
		return e.Bytes()
	}},
	{"Encoder.Struct{TagAny}", true, false, true, func(c *gateCodec, h any, tag int) []byte {
		e := c.newEnc()
		e.Struct(gateOuterTag, func(in *ttlv.Encoder) { in.TagAny(tag, h) })
		return e.Bytes()
	}},
	{"Stream.Send", false, true, false, func(_ *gateCodec, h any, _ int) []byte {
		var w gateSink
		st := ttlv.NewStream(&w, 0)
		if err := st.Send(h); err != nil {
			panic(err)
		}
		return w.Bytes()
	}},
}

type gateWay struct {
	sh *gateShape
	en *gateEntry
}

func (w gateWay) String() string { return w.en.name + "(" + w.sh.name + ")" }

var gateWays = func() []gateWay {
	var ws []gateWay
	for si := range gateShapes {
		for ei := range gateEntries {
			sh, en := &gateShapes[si], &gateEntries[ei]
			if sh.wrapped && (!en.needsTag || en.wrapped) {
				continue // a carrier has no default tag; one level of enclosing structure is enough
			}
			ws = append(ws, gateWay{sh, en})
		}
	}
	return ws
}()

type gateFormStats struct {
	checked    map[string]int // codec/way -> cases with at least one element removed
	valueDiffs int
}

func lazyLine(f func() string) func() string { return f }

func wrapSkel(s string) string { return fmt.Sprintf("(%X %s)", gateOuterTag, s) }

// gateForms: the message x (header version already set to v) through every way of codec c. wantSkel: the
// expectation from the pinned table; base: the bytes the engine's main path obtained with Marshal(ptr), nil when
// that path failed.
func gateForms(ctx *Ctx, c *gateCodec, x reflect.Value, rootTag int, v ver, wantSkel string, base []byte, nontrivial bool, val string, dyn int, fs *gateFormStats) {
	var baseW []byte // first output inside an enclosing structure that was compared with the expectation
	for _, w := range gateWays {
		if w.en.binOnly && c.name != "ttlv" {
			continue
		}
		tag := rootTag
		if w.sh.wrapped {
			tag = gateOuterTag
		}
		key := c.name + ":" + w.String()
		line := lazyLine(func() string { return fmt.Sprintf("#gate.form %s %s %d %s", c.name, w, dyn, val) })
		out, pn := guard(w.String(), func() []byte { return w.en.run(c, w.sh.mk(x), tag) })
		if pn != "" {
			gateViolate(ctx, "gating-forms", "form:"+key+":encoder-panic", fmt.Sprintf("%s: %s panicked at version %s although Marshal(&msg) does not: %s", c.name, w, v, pn), line())
			continue
		}
		want := wantSkel
		if w.sh.wrapped || w.en.wrapped {
			want = wrapSkel(wantSkel)
		}
		plain := !(w.sh.wrapped || w.en.wrapped)
		if plain && base != nil && bytes.Equal(out, base) || !plain && baseW != nil && bytes.Equal(out, baseW) {
			// identical to an output already compared with the pinned expectation
		} else {
			got, err := c.skel(out)
			if err != nil {
				gateViolate(ctx, "gating-forms", "form:"+key+":unreadable", fmt.Sprintf("%s: output of %s at version %s cannot be read back: %v", c.name, w, v, err), line())
				continue
			}
			if got != want {
				gateViolate(ctx, "gating-forms", "form:"+key+":"+gateKind(want, got), fmt.Sprintf("%s via %s at version %s: %s", c.name, w, v, firstDiff(want, got)), line())
				continue
			}
			if plain && base != nil {
				fs.valueDiffs++ // same elements, other bytes: not C05's business, but never silently
				ctx.Res.Count("gate.form.same-elements-other-bytes." + key)
			} else if plain {
				base = out
			} else if baseW == nil {
				baseW = out
			} else {
				fs.valueDiffs++
				ctx.Res.Count("gate.form.same-elements-other-bytes." + key)
			}
		}
		if nontrivial {
			fs.checked[key]++
		}
		ctx.Res.Count("gate.form." + c.name)
	}
}

// gateSecondMessage: a message with a 1.4 header, then the same message with a version-v header handed over in
// `sh`, on ONE binary encoder without Clear: the output is the concatenation of the two encodings.
func gateSecondMessage(ctx *Ctx, x reflect.Value, hv *kmip.ProtocolVersion, v ver, full, base []byte, nontrivial bool, val string, dyn int, fs *gateFormStats) {
	for si := range gateShapes {
		sh := &gateShapes[si]
		if sh.wrapped {
			continue
		}
		key := "ttlv:Encoder.Any-after-1.4-message(" + sh.name + ")"
		line := lazyLine(func() string {
			return fmt.Sprintf("#gate.form ttlv Encoder.Any-after-1.4-message(%s) %d %s", sh.name, dyn, val)
		})
		vv := *hv
		out, pn := guard(key, func() []byte {
			e := ttlv.NewTTLVEncoder()
			*hv = kmip.V1_4
			e.Any(sh.mk(x))
			*hv = vv
			e.Any(sh.mk(x))
			return e.Bytes()
		})
		*hv = vv
		if pn != "" {
			gateViolate(ctx, "gating-forms", "form:"+key+":encoder-panic", "panicked at version "+v.String()+": "+pn, line())
			continue
		}
		if !bytes.Equal(out, append(append([]byte{}, full...), base...)) {
			kind := "later-element-present-or-in-range-element-missing"
			if len(out) > len(full)+len(base) {
				kind = "element-introduced-after-V-present"
			} else if len(out) < len(full)+len(base) {
				kind = "in-range-element-missing"
			}
			gateViolate(ctx, "gating-forms", "form:"+key+":"+kind, fmt.Sprintf("a version-%s message written after a 1.4 message on the same encoder is not the version-%s encoding (%d bytes, want %d+%d)", v, v, len(out), len(full), len(base)), line())
			continue
		}
		if nontrivial {
			fs.checked[key]++
		}
		ctx.Res.Count("gate.form.ttlv")
	}
}

// gateFormKeys: every (codec, way) the floor is checked on.
func gateFormKeys() []string {
	var ks []string
	for ci := range gateCodecs {
		for _, w := range gateWays {
			if w.en.binOnly && gateCodecs[ci].name != "ttlv" {
				continue
			}
			ks = append(ks, gateCodecs[ci].name+":"+w.String())
		}
	}
	for si := range gateShapes {
		if !gateShapes[si].wrapped {
			ks = append(ks, "ttlv:Encoder.Any-after-1.4-message("+gateShapes[si].name+")")
		}
	}
	return ks
}
