/-
  Helper lemmas about `KmipModel.Model.Stream`: the receive loop against an adversarial transport.
  Core Lean only.
-/
import KmipModel.Lemmas.BytesLemmas
import KmipModel.Model.Stream
namespace Kmip

/-! ### `computeNeededBytes` -/

theorem computeNeededBytes_short {b : Bytes} (h : b.length < 8) : computeNeededBytes b = 8 := by
  simp [computeNeededBytes, h]

theorem computeNeededBytes_ge (b : Bytes) : 8 ≤ computeNeededBytes b := by
  unfold computeNeededBytes; split <;> omega

/-- once the 8 header bytes are there, what follows does not change the announced size. -/
theorem computeNeededBytes_prefix (b x : Bytes) (h : 8 ≤ b.length) :
    computeNeededBytes (b ++ x) = computeNeededBytes b := by
  unfold computeNeededBytes
  have h1 : ¬ (b ++ x).length < 8 := by simp only [List.length_append]; omega
  have h2 : ¬ b.length < 8 := by omega
  rw [if_neg h1, if_neg h2, List.drop_append_of_le_length (by omega),
    List.take_append_of_le_length (by simp only [List.length_drop]; omega)]

theorem computeNeededBytes_take8 (w : Bytes) (h : 8 ≤ w.length) :
    computeNeededBytes (w.take 8) = computeNeededBytes w := by
  have := computeNeededBytes_prefix (w.take 8) (w.drop 8) (by simp only [List.length_take]; omega)
  rw [List.take_append_drop] at this
  exact this.symm

/-- the size needed by a prefix `b` of a complete frame `m`. -/
theorem needed_of_prefix {m b x : Bytes} (hm : Framed m) (e : m = b ++ x) :
    computeNeededBytes b = if b.length < 8 then 8 else m.length := by
  by_cases h : b.length < 8
  · rw [if_pos h, computeNeededBytes_short h]
  · rw [if_neg h, hm.2, e, computeNeededBytes_prefix b x (by omega)]

/-! ### schedules -/

/-- no scheduled read is flagged with an error. -/
def ErrFree (s : List ReadEv) : Prop := ∀ ev ∈ s, ev.withErr = false

/-- Byte accounting for a frame of `total` bytes of which `got` have been received: every scheduled
    read either completes the frame (`total ≤ got'`; it and all later reads are unconstrained) or is
    not flagged with an error. The read requests `need - got` bytes where `need` is 8 during the
    header phase and `total` afterwards, and delivers `min ev.k (need - got)`. -/
def ErrOnlyAtEnd (total : Nat) : Nat → List ReadEv → Prop
  | _, [] => True
  | got, ev :: rest =>
    total ≤ got + min ev.k ((if got < 8 then 8 else total) - got) ∨
    (ev.withErr = false ∧
      ErrOnlyAtEnd total (got + min ev.k ((if got < 8 then 8 else total) - got)) rest)

theorem ErrOnlyAtEnd_of_errFree (total : Nat) : ∀ (s : List ReadEv) (got : Nat), ErrFree s →
    ErrOnlyAtEnd total got s
  | [], _, _ => trivial
  | ev :: rest, got, h => by
    unfold ErrOnlyAtEnd
    exact Or.inr ⟨h ev (by simp), ErrOnlyAtEnd_of_errFree total rest _
      (fun e he => h e (List.mem_cons_of_mem _ he))⟩

theorem Progressive_of_suffix {pre s s' : List ReadEv} (e : s = pre ++ s') (h : Progressive s) :
    Progressive s' := fun ev hev => h ev (by rw [e]; exact List.mem_append_right _ hev)

theorem ErrFree_of_suffix {pre s s' : List ReadEv} (e : s = pre ++ s') (h : ErrFree s) :
    ErrFree s' := fun ev hev => h ev (by rw [e]; exact List.mem_append_right _ hev)

/-! ### one `Read` -/

/-- a read of `1 ≤ req ≤ |a|` bytes from a wire `a ++ rest` under a progressive schedule delivers a
    non-empty prefix of `a`. -/
theorem read_spec (a rest : Bytes) (sched : List ReadEv) (req : Nat)
    (h1 : 1 ≤ req) (h2 : req ≤ a.length) (hp : Progressive sched) :
    ∃ n e sched', 1 ≤ n ∧ n ≤ req ∧
      (Transport.read { wire := a ++ rest, sched := sched } req
        = (a.take n, e, { wire := a.drop n ++ rest, sched := sched' })) ∧
      ((sched = [] ∧ sched' = [] ∧ e = false ∧ n = req) ∨
       (∃ ev, sched = ev :: sched' ∧ e = ev.withErr ∧ n = min ev.k req)) := by
  have hne : (a ++ rest).isEmpty = false := by
    cases a with
    | nil => simp at h2; omega
    | cons x xs => rfl
  cases sched with
  | nil =>
    refine ⟨req, false, [], h1, Nat.le_refl _, ?_, Or.inl ⟨rfl, rfl, rfl, rfl⟩⟩
    simp only [Transport.read, hne]
    rw [List.take_append_of_le_length h2, List.drop_append_of_le_length h2]
    rfl
  | cons ev sr =>
    have hk : 1 ≤ ev.k := hp ev (by simp)
    have hn1 : 1 ≤ min ev.k req := by omega
    have hn2 : min ev.k req ≤ req := by omega
    refine ⟨min ev.k req, ev.withErr, sr, hn1, hn2, ?_, Or.inr ⟨ev, rfl, rfl, rfl⟩⟩
    simp only [Transport.read, hne]
    rw [List.take_append_of_le_length (by omega), List.drop_append_of_le_length (by omega)]
    rfl

theorem recvLoop_succ (max fuel : Nat) (t : Transport) (buf : Bytes) (need cap : Nat) :
    recvLoop max (fuel + 1) t buf need cap =
      if (t.read (need - buf.length)).1.isEmpty then
        if (t.read (need - buf.length)).2.1 then
          { res := .ioErr, t := (t.read (need - buf.length)).2.2,
            cap := if need > cap then need else cap }
        else { res := .eof, t := (t.read (need - buf.length)).2.2,
               cap := if need > cap then need else cap }
      else
        if max > 0 ∧ computeNeededBytes (buf ++ (t.read (need - buf.length)).1) > max then
          { res := .tooBig, t := (t.read (need - buf.length)).2.2,
            cap := if need > cap then need else cap }
        else if (buf ++ (t.read (need - buf.length)).1).length
            ≥ computeNeededBytes (buf ++ (t.read (need - buf.length)).1) then
          { res := .msg ((buf ++ (t.read (need - buf.length)).1).take
              (computeNeededBytes (buf ++ (t.read (need - buf.length)).1))),
            t := (t.read (need - buf.length)).2.2, cap := if need > cap then need else cap }
        else if (t.read (need - buf.length)).2.1 then
          { res := .ioErr, t := (t.read (need - buf.length)).2.2,
            cap := if need > cap then need else cap }
        else recvLoop max fuel (t.read (need - buf.length)).2.2
          (buf ++ (t.read (need - buf.length)).1)
          (computeNeededBytes (buf ++ (t.read (need - buf.length)).1))
          (if need > cap then need else cap) := by
  rw [recvLoop]

/-- the loop, given the outcome of the `Read`. -/
theorem recvLoop_step {max fuel : Nat} {t t' : Transport} {buf bs : Bytes} {need cap : Nat}
    {e : Bool} (h : t.read (need - buf.length) = (bs, e, t')) :
    recvLoop max (fuel + 1) t buf need cap =
      if bs.isEmpty then
        if e then { res := .ioErr, t := t', cap := if need > cap then need else cap }
        else { res := .eof, t := t', cap := if need > cap then need else cap }
      else
        if max > 0 ∧ computeNeededBytes (buf ++ bs) > max then
          { res := .tooBig, t := t', cap := if need > cap then need else cap }
        else if (buf ++ bs).length ≥ computeNeededBytes (buf ++ bs) then
          { res := .msg ((buf ++ bs).take (computeNeededBytes (buf ++ bs))), t := t',
            cap := if need > cap then need else cap }
        else if e then { res := .ioErr, t := t', cap := if need > cap then need else cap }
        else recvLoop max fuel t' (buf ++ bs) (computeNeededBytes (buf ++ bs))
          (if need > cap then need else cap) := by
  rw [recvLoop_succ, h]

theorem isEmpty_false_of_length_pos {l : Bytes} (h : 0 < l.length) : l.isEmpty = false := by
  cases l with
  | nil => simp at h
  | cons _ _ => rfl

/-! ### C07.1 — the loop returns exactly the first frame -/

theorem recvLoop_exact (max : Nat) (m : Bytes) (hm : Framed m) (hmax : max = 0 ∨ m.length ≤ max)
    (rest : Bytes) :
    ∀ (fuel : Nat) (buf m2 : Bytes) (sched : List ReadEv) (cap : Nat),
      m = buf ++ m2 → m2 ≠ [] → m2.length ≤ fuel → Progressive sched →
      ErrOnlyAtEnd m.length buf.length sched →
      ∃ pre sched' cap', sched = pre ++ sched' ∧
        recvLoop max fuel { wire := m2 ++ rest, sched := sched } buf (computeNeededBytes buf) cap
          = { res := .msg m, t := { wire := rest, sched := sched' }, cap := cap' } := by
  intro fuel
  induction fuel with
  | zero =>
    intro buf m2 sched cap _ hne hf _ _
    cases m2 with
    | nil => exact absurd rfl hne
    | cons _ _ => simp at hf
  | succ fuel ih =>
    intro buf m2 sched cap e hne hf hp he
    have hml : m.length = buf.length + m2.length := by rw [e, List.length_append]
    have hm2 : 0 < m2.length := by
      cases m2 with
      | nil => exact absurd rfl hne
      | cons _ _ => simp
    have hneed := needed_of_prefix hm e
    have hm8 := hm.1
    -- the request
    have hreq1 : 1 ≤ computeNeededBytes buf - buf.length := by rw [hneed]; split <;> omega
    have hreq2 : computeNeededBytes buf - buf.length ≤ m2.length := by rw [hneed]; split <;> omega
    obtain ⟨n, er, sched', hn1, hn2, hread, hcases⟩ :=
      read_spec m2 rest sched _ hreq1 hreq2 hp
    rw [recvLoop_step hread]
    have hbs : 0 < (m2.take n).length := by rw [List.length_take]; omega
    rw [isEmpty_false_of_length_pos hbs]
    have e' : m = (buf ++ m2.take n) ++ m2.drop n := by
      rw [List.append_assoc, List.take_append_drop]; exact e
    have hneed' := needed_of_prefix hm e'
    have hlen' : (buf ++ m2.take n).length = buf.length + n := by
      rw [List.length_append, List.length_take]; omega
    have hle : computeNeededBytes (buf ++ m2.take n) ≤ m.length := by
      rw [hneed']; split <;> omega
    have hnotbig : ¬ (max > 0 ∧ computeNeededBytes (buf ++ m2.take n) > max) := by omega
    simp only [Bool.false_eq_true, if_false]
    rw [if_neg hnotbig]
    by_cases hdone : (buf ++ m2.take n).length ≥ computeNeededBytes (buf ++ m2.take n)
    · -- frame complete
      rw [if_pos hdone]
      have h8 : ¬ (buf ++ m2.take n).length < 8 := by
        intro h; rw [hneed', if_pos h] at hdone; omega
      rw [hneed', if_neg h8] at hdone
      have hn : n = m2.length := by omega
      have hpre : ∃ pre, sched = pre ++ sched' := by
        rcases hcases with ⟨h1, h2, _, _⟩ | ⟨ev, h1, _, _⟩
        · exact ⟨[], by rw [h1, h2]; rfl⟩
        · exact ⟨[ev], by rw [h1]; rfl⟩
      obtain ⟨pre, hpre⟩ := hpre
      refine ⟨pre, sched', (if computeNeededBytes buf > cap then computeNeededBytes buf else cap),
        hpre, ?_⟩
      have hfull : buf ++ m2.take n = m := by
        rw [hn, List.take_length]; exact e.symm
      rw [hneed', if_neg h8, hfull, List.take_length, hn, List.drop_length, List.nil_append]
    · rw [if_neg hdone]
      have hlt : buf.length + n < m.length := by
        rw [hneed'] at hdone; rw [hlen'] at hdone
        by_cases h8 : buf.length + n < 8
        · omega
        · rw [if_neg h8] at hdone; omega
      rcases hcases with ⟨h1, h2, h3, _⟩ | ⟨ev, h1, h3, h4⟩
      · subst h1 h2 h3
        simp only [Bool.false_eq_true, if_false]
        have := ih (buf ++ m2.take n) (m2.drop n) [] (if computeNeededBytes buf > cap then
          computeNeededBytes buf else cap) e'
          (by intro h; have := congrArg List.length h; simp at this; omega)
          (by rw [List.length_drop]; omega) hp trivial
        obtain ⟨pre, s', c', hs, hr⟩ := this
        exact ⟨pre, s', c', hs, hr⟩
      · subst h1
        unfold ErrOnlyAtEnd at he
        rw [← hneed, ← h4] at he
        rcases he with he | ⟨he1, he2⟩
        · omega
        · rw [h3, he1]
          simp only [Bool.false_eq_true, if_false]
          have := ih (buf ++ m2.take n) (m2.drop n) sched' (if computeNeededBytes buf > cap then
            computeNeededBytes buf else cap) e'
            (by intro h; have := congrArg List.length h; simp at this; omega)
            (by rw [List.length_drop]; omega)
            (fun x hx => hp x (List.mem_cons_of_mem _ hx)) (by rw [hlen']; exact he2)
          obtain ⟨pre, s', c', hs, hr⟩ := this
          exact ⟨ev :: pre, s', c', by rw [hs]; rfl, hr⟩

theorem computeNeededBytes_nil : computeNeededBytes [] = 8 := rfl

theorem recv_exact_gen (max : Nat) (m rest : Bytes) (sched : List ReadEv)
    (hm : Framed m) (hmax : max = 0 ∨ m.length ≤ max) (hp : Progressive sched)
    (he : ErrOnlyAtEnd m.length 0 sched) :
    ∃ pre sched' cap', sched = pre ++ sched' ∧
      recv max { wire := m ++ rest, sched := sched }
        = { res := .msg m, t := { wire := rest, sched := sched' }, cap := cap' } := by
  have hne : m ≠ [] := by
    intro h; have := hm.1; rw [h] at this; simp at this
  have := recvLoop_exact max m hm hmax rest ((m ++ rest).length + sched.length + 2) [] m sched 512
    rfl hne (by rw [List.length_append]; omega) hp he
  rw [computeNeededBytes_nil] at this
  exact this

/-! ### C07.2 — a sequence of frames -/

theorem recvAll_exact_aux (max : Nat) (rest : Bytes) :
    ∀ (ms : List Bytes) (sched : List ReadEv),
      (∀ m ∈ ms, Framed m ∧ (max = 0 ∨ m.length ≤ max)) → Progressive sched → ErrFree sched →
      ∃ sched', recvAll max ms.length { wire := ms.flatten ++ rest, sched := sched }
          = (ms, .fuel, { wire := rest, sched := sched' }) ∧ Progressive sched' ∧ ErrFree sched'
  | [], sched, _, hp, he => ⟨sched, rfl, hp, he⟩
  | m :: ms, sched, h, hp, he => by
    have hm := h m (by simp)
    obtain ⟨pre, s1, c1, hs, hr⟩ := recv_exact_gen max m (ms.flatten ++ rest) sched hm.1 hm.2 hp
      (ErrOnlyAtEnd_of_errFree _ _ _ he)
    obtain ⟨s2, hr2, hp2, he2⟩ := recvAll_exact_aux max rest ms s1
      (fun x hx => h x (List.mem_cons_of_mem _ hx)) (Progressive_of_suffix hs hp)
      (ErrFree_of_suffix hs he)
    refine ⟨s2, ?_, hp2, he2⟩
    simp only [List.flatten_cons, List.length_cons, List.append_assoc, recvAll, hr, hr2]

/-! ### C07.3 — a truncated stream never yields a message -/

theorem read_split (t : Transport) (req : Nat) :
    (t.read req).1 ++ (t.read req).2.2.wire = t.wire := by
  unfold Transport.read
  cases hs : t.sched with
  | nil =>
    cases hw : t.wire.isEmpty with
    | true => simp
    | false => simp
  | cons ev sr =>
    cases hw : t.wire.isEmpty with
    | true => simp
    | false => simp

theorem recvLoop_never_msg (max : Nat) (m : Bytes) (hm : Framed m) :
    ∀ (fuel : Nat) (t : Transport) (buf : Bytes) (need cap : Nat),
      (∃ tail, tail ≠ [] ∧ m = buf ++ t.wire ++ tail) →
      ∀ bs, (recvLoop max fuel t buf need cap).res ≠ .msg bs := by
  intro fuel
  induction fuel with
  | zero => intro t buf need cap _ bs; simp [recvLoop]
  | succ fuel ih =>
    intro t buf need cap ⟨tail, htail, e⟩ bs
    have hsplit := read_split t (need - buf.length)
    rw [recvLoop_succ]
    generalize t.read (need - buf.length) = r at hsplit
    obtain ⟨rb, re, t'⟩ := r
    simp only at hsplit ⊢
    have e' : m = (buf ++ rb) ++ (t'.wire ++ tail) := by
      rw [e, ← hsplit]; simp only [List.append_assoc]
    have hneed := needed_of_prefix hm e'
    have hlen : (buf ++ rb).length < m.length := by
      have : 0 < tail.length := by
        cases tail with
        | nil => exact absurd rfl htail
        | cons _ _ => simp
      have h2 := congrArg List.length e'
      simp only [List.length_append] at h2 ⊢
      omega
    have hm8 := hm.1
    split
    · split <;> simp
    · split
      · simp
      · split
        · rename_i hdone
          exfalso
          rw [hneed] at hdone
          split at hdone <;> omega
        · split
          · simp
          · exact ih t' (buf ++ rb) _ _ ⟨tail, htail, by rw [e']; simp only [List.append_assoc]⟩ bs

/-! ### C07.4 — oversized announcements -/

theorem recvLoop_too_big (max : Nat) (hmax : 0 < max) (w : Bytes) (h8 : 8 ≤ w.length)
    (hbig : max < computeNeededBytes (w.take 8)) :
    ∀ (fuel : Nat) (buf wire : Bytes) (sched : List ReadEv),
      w = buf ++ wire → buf.length < 8 → 8 - buf.length ≤ fuel → Progressive sched →
      ((recvLoop max fuel { wire := wire, sched := sched } buf 8 512).res = .tooBig ∨
        (recvLoop max fuel { wire := wire, sched := sched } buf 8 512).res = .ioErr) ∧
      w.length - (recvLoop max fuel { wire := wire, sched := sched } buf 8 512).t.wire.length ≤ 8 ∧
      (recvLoop max fuel { wire := wire, sched := sched } buf 8 512).cap = 512 ∧
      (ErrFree sched →
        (recvLoop max fuel { wire := wire, sched := sched } buf 8 512).res = .tooBig ∧
        (8 ≤ max →
          w.length - (recvLoop max fuel { wire := wire, sched := sched } buf 8 512).t.wire.length
            = 8)) := by
  intro fuel
  induction fuel with
  | zero => intro buf wire sched _ hb hf _; omega
  | succ fuel ih =>
    intro buf wire sched e hb hf hp
    have hwl : w.length = buf.length + wire.length := by rw [e, List.length_append]
    obtain ⟨n, er, sched', hn1, hn2, hread, hcases⟩ :=
      read_spec wire [] sched (8 - buf.length) (by omega) (by omega) hp
    simp only [List.append_nil] at hread
    rw [recvLoop_step hread]
    have hbs : 0 < (wire.take n).length := by rw [List.length_take]; omega
    rw [isEmpty_false_of_length_pos hbs]
    have e' : w = (buf ++ wire.take n) ++ wire.drop n := by
      rw [List.append_assoc, List.take_append_drop]; exact e
    have hlen' : (buf ++ wire.take n).length = buf.length + n := by
      rw [List.length_append, List.length_take]; omega
    have hcap : (if 8 > 512 then 8 else 512) = 512 := by decide
    simp only [Bool.false_eq_true, if_false, hcap]
    by_cases hfull : buf.length + n = 8
    · have htake : w.take 8 = buf ++ wire.take n := by
        rw [e']; exact List.take_left' (by rw [hlen', hfull])
      rw [← htake, if_pos ⟨hmax, hbig⟩]
      simp only [List.length_drop]
      refine ⟨Or.inl (by first | trivial | rfl), by omega, (by first | trivial | rfl), fun _ => ⟨(by first | trivial | rfl), fun _ => by omega⟩⟩
    · have hshort : (buf ++ wire.take n).length < 8 := by omega
      rw [computeNeededBytes_short hshort]
      by_cases hm8 : 8 > max
      · rw [if_pos ⟨hmax, hm8⟩]
        simp only [List.length_drop]
        refine ⟨Or.inl (by first | trivial | rfl), by omega, (by first | trivial | rfl), fun _ => ⟨(by first | trivial | rfl), fun _ => by omega⟩⟩
      · rw [if_neg (by omega), if_neg (by omega)]
        cases her : er with
        | true =>
          simp only [if_true, List.length_drop]
          refine ⟨Or.inr (by first | trivial | rfl), by omega, (by first | trivial | rfl), fun hef => ?_⟩
          exfalso
          rcases hcases with ⟨_, _, h3, _⟩ | ⟨ev, h1, h3, _⟩
          · rw [h3] at her; cases her
          · have := hef ev (by rw [h1]; simp)
            rw [← h3, her] at this; cases this
        | false =>
          simp only [Bool.false_eq_true, if_false]
          have hsuf : ∃ pre, sched = pre ++ sched' := by
            rcases hcases with ⟨h1, h2, _, _⟩ | ⟨ev, h1, _, _⟩
            · exact ⟨[], by rw [h1, h2]; rfl⟩
            · exact ⟨[ev], by rw [h1]; rfl⟩
          obtain ⟨pre, hsuf⟩ := hsuf
          have := ih (buf ++ wire.take n) (wire.drop n) sched' e' hshort (by omega)
            (Progressive_of_suffix hsuf hp)
          exact ⟨this.1, this.2.1, this.2.2.1, fun hef => this.2.2.2 (ErrFree_of_suffix hsuf hef)⟩

/-! ### C07.5 — the buffer never grows beyond the limit -/

theorem recvLoop_cap_bound (max B : Nat) (hmax : 0 < max) (hB : max ≤ B) :
    ∀ (fuel : Nat) (t : Transport) (buf : Bytes) (need cap : Nat), need ≤ B → cap ≤ B →
      (recvLoop max fuel t buf need cap).cap ≤ B := by
  intro fuel
  induction fuel with
  | zero => intro t buf need cap _ hc; simpa [recvLoop] using hc
  | succ fuel ih =>
    intro t buf need cap hn hc
    have hcap : (if need > cap then need else cap) ≤ B := by split <;> omega
    rw [recvLoop_succ]
    split
    · split <;> exact hcap
    · split
      · exact hcap
      · rename_i hnb
        split
        · exact hcap
        · split
          · exact hcap
          · exact ih _ _ _ _ (by omega) hcap

end Kmip
