/-
  Driver handlers of the typed codec over the regenerated schema:
    plan.enc <dyn id> <tag> <val>     →  ok <hex of the binary TTLV> | err | panic <msg>     (tag 0 = the type's default tag)
    plan.dec <dyn id> <tag> <hex>     →  ok <val> | err | panic <msg>
-/
import Driver.Common
import KmipModel.Model.ValSyntax
import KmipModel.Gen.Schema
open Kmip

namespace Driver

def handlePlan (cmd arg : String) : Option String :=
  match cmd with
  | "plan.enc" => some <|
    match arg.splitOn " " with
    | d :: t :: _ =>
      match d.toNat?, t.toNat?, parseValStr ((arg.drop (d.length + t.length + 2)).toString) with
      | some dn, some tg, some v => renderRes (do let bs ← marshal Gen.schema dn tg v; pure (hexOfBytes bs))
      | _, _, _ => "bad-op"
    | _ => "bad-op"
  | "plan.dec" => some <|
    match arg.splitOn " " with
    | [d, t, h] =>
      match d.toNat?, t.toNat?, bytesOfHex h with
      | some dn, some tg, some bs => renderRes (do let v ← unmarshal Gen.schema dn tg bs; pure v.render)
      | _, _, _ => "bad-op"
    | _ => "bad-op"
  | _ => none

end Driver
