/-
  Driver handlers `reg.*`: the registry functions of the model answered from the GENERATED tables
  (`Kmip.Gen.*`, regenerated from the Go tree on every check), so that a change of the Go registry
  changes the tables, which must still agree with what the Go functions answer.

  Texts (names, separators, inputs) travel as upper-case hex of their bytes, `-` for the empty string;
  numbers in decimal. Answers: `ok <hex>` / `ok <number>` / `err`.

    reg.tagname <tag>                  ttlv.TagString
    reg.tagxml <tag>                   the XML writer's element name / tag attribute
    reg.tagnum <hex text>              xmlReader.Tag / jsonReader.Tag on the raw tag text
    reg.enumname <tag> <v>             ttlv.EnumName                     (`-` when unregistered)
    reg.enumtext <tag> <v>             EnumStr / MarshalText / XML / JSON writers
    reg.enumbyname <tag> <hex>         ttlv.EnumByName
    reg.enumparse <tag> <hex>          xmlReader.Enum / jsonReader.Enum (string value)
    reg.enumunmarshal <tag> <hex>      UnmarshalText of the enumeration types
    reg.masktext <tag> <hex sep> <v>   ttlv.AppendBitmaskString / BitmaskStr (v = uint32 pattern)
    reg.maskbyname <tag> <hex>         ttlv.BitmaskByStr                 (uint32 pattern)
    reg.maskxml|maskjson|maskunmarshal <tag> <hex>   the three readers    (uint32 pattern)
-/
import Driver.Common
import KmipModel.Model.Registry
import KmipModel.Gen.Registry
open Kmip Kmip.Reg

namespace Driver

def regHex (bs : List Nat) : String :=
  if bs.isEmpty then "-" else hexOfBytes (bs.map fun b => UInt8.ofNat b)

def regBytes (s : String) : Option (List Nat) :=
  (bytesOfHex s).map fun bs => bs.map fun b => b.toNat

def regOpt (o : Option Nat) : String :=
  match o with
  | some v => "ok " ++ toString v
  | none => "err"

/-- `none` = command not handled here. -/
def handleRegistry (cmd arg : String) : Option String :=
  if !cmd.startsWith "reg." then none else
  let args := arg.splitOn " "
  some <|
  match cmd, args with
  | "reg.tagname", [t] =>
    match t.toNat? with
    | some t => "ok " ++ regHex (tagToText Gen.tagNames t)
    | none => "bad-op"
  | "reg.tagxml", [t] =>
    match t.toNat? with
    | some t => "ok " ++ regHex (tagToTextXml Gen.tagNames t)
    | none => "bad-op"
  | "reg.tagnum", [h] =>
    match regBytes h with
    | some s => "ok " ++ toString (tagFromText Gen.tagByName s)
    | none => "bad-op"
  | "reg.enumname", [t, v] =>
    match t.toNat?, v.toNat? with
    | some t, some v =>
      match lookup v (enumByValue Gen.enums t) with
      | some n => "ok " ++ regHex (unpack n)
      | none => "ok -"
    | _, _ => "bad-op"
  | "reg.enumtext", [t, v] =>
    match t.toNat?, v.toNat? with
    | some t, some v => "ok " ++ regHex (enumToText (enumByValue Gen.enums t) v)
    | _, _ => "bad-op"
  | "reg.enumbyname", [t, h] =>
    match t.toNat?, regBytes h with
    | some t, some s => regOpt (lookup (pack s) (enumByName Gen.enums t))
    | _, _ => "bad-op"
  | "reg.enumparse", [t, h] =>
    match t.toNat?, regBytes h with
    | some t, some s => regOpt (enumFromTextReader (enumByName Gen.enums t) s)
    | _, _ => "bad-op"
  | "reg.enumunmarshal", [t, h] =>
    match t.toNat?, regBytes h with
    | some t, some s => regOpt (enumFromTextUnmarshal (enumByName Gen.enums t) s)
    | _, _ => "bad-op"
  | "reg.masktext", [t, sep, v] =>
    match t.toNat?, regBytes sep, v.toNat? with
    | some t, some sep, some v => "ok " ++ regHex (maskToText (maskNames Gen.masks t) sep v)
    | _, _, _ => "bad-op"
  | "reg.maskbyname", [t, h] =>
    match t.toNat?, regBytes h with
    | some t, some s => regOpt (lookup (pack s) (maskByName Gen.masks t))
    | _, _ => "bad-op"
  | "reg.maskxml", [t, h] =>
    match t.toNat?, regBytes h with
    | some t, some s => regOpt (maskFromTextXml (maskByName Gen.masks t) s)
    | _, _ => "bad-op"
  | "reg.maskjson", [t, h] =>
    match t.toNat?, regBytes h with
    | some t, some s => regOpt (maskFromTextJson (maskByName Gen.masks t) s)
    | _, _ => "bad-op"
  | "reg.maskunmarshal", [t, h] =>
    match t.toNat?, regBytes h with
    | some t, some s => regOpt (maskFromTextUnmarshal (maskByName Gen.masks t) s)
    | _, _ => "bad-op"
  | _, _ => "bad-op"

end Driver
