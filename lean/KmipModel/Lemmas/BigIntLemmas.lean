/-
  Helper lemmas about `KmipModel.Model.BigInt`: the two negate loops compute the two's complement,
  closed forms for `encodeBig`, and `twos` of padded byte strings. Core Lean only.
-/
import KmipModel.Lemmas.BytesLemmas
import KmipModel.Model.BigInt
namespace Kmip

/-! ### the negate loops, one step -/

theorem UInt8.not_sub_one (b : UInt8) : ~~~(b - 1) = ~~~b + 1 := by
  rw [← UInt8.toNat_inj]
  simp [UInt8.toNat_not, UInt8.toNat_add, UInt8.toNat_sub]
  have := b.toNat_lt
  omega

theorem UInt8.not_add_one_eq_zero_iff (b : UInt8) : ~~~b + 1 = 0 ↔ b = 0 := by
  rw [← UInt8.toNat_inj, ← UInt8.toNat_inj]
  simp [UInt8.toNat_not, UInt8.toNat_add]
  have := b.toNat_lt
  omega

theorem UInt8.not_add_one_toNat (b : UInt8) :
    (~~~b + 1).toNat = if b.toNat = 0 then 0 else 256 - b.toNat := by
  simp [UInt8.toNat_not, UInt8.toNat_add]
  have := b.toNat_lt
  split <;> omega

theorem UInt8.toNat_eq_zero_iff (b : UInt8) : b.toNat = 0 ↔ b = 0 := by
  rw [← UInt8.toNat_inj]; simp

theorem negEncLE_cons_zero (b : UInt8) (bs : Bytes) :
    negEncLE (b :: bs) 0 = ~~~b :: negEncLE bs 0 := by
  simp [negEncLE]

theorem negEncLE_cons_one (b : UInt8) (bs : Bytes) :
    negEncLE (b :: bs) 1 = (~~~b + 1) :: negEncLE bs (if b = 0 then 1 else 0) := by
  have h1 : (1 : UInt8) > 0 := by decide
  by_cases hb : b = 0
  · subst hb
    have : ((-1 : UInt8) + 1) = 0 := by decide
    simp [negEncLE, this]
  · have : ~~~b + 1 ≠ 0 := fun h => hb ((UInt8.not_add_one_eq_zero_iff b).1 h)
    simp [negEncLE, this, hb, h1]

theorem negDecLE_cons_zero (b : UInt8) (bs : Bytes) :
    negDecLE (b :: bs) 0 = ~~~b :: negDecLE bs 0 := by
  simp [negDecLE]

theorem negDecLE_cons_one (b : UInt8) (bs : Bytes) :
    negDecLE (b :: bs) 1 = (~~~b + 1) :: negDecLE bs (if b = 0 then 1 else 0) := by
  have h1 : (1 : UInt8) > 0 := by decide
  by_cases hb : b = 0
  · subst hb
    have : ((-1 : UInt8) + 1) = 0 := by decide
    simp [negDecLE, this]
  · have : ~~~b + 1 ≠ 0 := fun h => hb ((UInt8.not_add_one_eq_zero_iff b).1 h)
    simp [negDecLE, UInt8.not_sub_one, this, hb, h1]

theorem negDecLE_zero_eq (bs : Bytes) : negDecLE bs 0 = negEncLE bs 0 := by
  induction bs with
  | nil => rfl
  | cons b bs ih => rw [negDecLE_cons_zero, negEncLE_cons_zero, ih]

/-- On the carries that occur (`1` initially, then `0` or `1`), both negate loops agree. -/
theorem negDecLE_one_eq (bs : Bytes) : negDecLE bs 1 = negEncLE bs 1 := by
  induction bs with
  | nil => rfl
  | cons b bs ih =>
    rw [negDecLE_cons_one, negEncLE_cons_one]
    by_cases hb : b = 0
    · simp [hb, ih]
    · simp [hb, negDecLE_zero_eq]

theorem negEncLE_length (bs : Bytes) (c : UInt8) : (negEncLE bs c).length = bs.length := by
  induction bs generalizing c with
  | nil => rfl
  | cons b bs ih => simp [negEncLE, ih]

/-! ### the negate loops, value -/

/-- carry 0: the loop is a bytewise complement. -/
theorem valLE_negEncLE_zero (bs : Bytes) :
    valLE (negEncLE bs 0) + valLE bs + 1 = 256 ^ bs.length := by
  induction bs with
  | nil => rfl
  | cons b bs ih =>
    rw [negEncLE_cons_zero]
    simp only [valLE, List.length_cons, Nat.pow_succ, UInt8.toNat_not]
    have := b.toNat_lt
    have e : UInt8.size = 256 := rfl
    omega

/-- carry 1: the loop is the two's complement negation modulo `256^n`. -/
theorem valLE_negEncLE_one (bs : Bytes) :
    (valLE bs = 0 → valLE (negEncLE bs 1) = 0) ∧
    (valLE bs ≠ 0 → valLE (negEncLE bs 1) + valLE bs = 256 ^ bs.length) := by
  induction bs with
  | nil => simp [valLE, negEncLE]
  | cons b bs ih =>
    rw [negEncLE_cons_one]
    have hb := b.toNat_lt
    have h0 := valLE_negEncLE_zero bs
    by_cases hz : b = 0
    · subst hz
      have e0 : (0 : UInt8).toNat = 0 := rfl
      have e1 : (~~~(0 : UInt8) + 1).toNat = 0 := by decide
      simp only [if_true, valLE, List.length_cons, Nat.pow_succ, e0, e1]
      omega
    · have hne : b.toNat ≠ 0 := fun h => hz ((UInt8.toNat_eq_zero_iff b).1 h)
      have e1 := UInt8.not_add_one_toNat b
      rw [if_neg hne] at e1
      simp only [if_neg hz, valLE, List.length_cons, Nat.pow_succ, e1]
      omega

theorem beVal_negEnc (mag : Bytes) (h : beVal mag ≠ 0) :
    beVal (negEncLE mag.reverse 1).reverse + beVal mag = 256 ^ mag.length := by
  rw [beVal_reverse]
  have := (valLE_negEncLE_one mag.reverse).2
  rw [← beVal_eq_valLE_reverse, List.length_reverse] at this
  exact this h

/-! ### heads and `twos` -/

theorem beVal_pos_of_head (b0 : UInt8) (tl : Bytes) (h : ¬ b0 < 0x80) : beVal (b0 :: tl) ≠ 0 := by
  rw [beVal_cons]
  rw [UInt8.lt_0x80_iff] at h
  have : 0 < b0.toNat * 256 ^ tl.length := Nat.mul_pos (by omega) (Nat.pow_pos (by decide))
  omega

theorem twos_cons_lt (b0 : UInt8) (tl : Bytes) (h : b0 < 0x80) :
    twos (b0 :: tl) = (beVal (b0 :: tl) : Int) := by
  simp [twos, h]

theorem twos_cons_ge (b0 : UInt8) (tl : Bytes) (h : ¬ b0 < 0x80) :
    twos (b0 :: tl) = (beVal (b0 :: tl) : Int) - ((256 ^ (tl.length + 1) : Nat) : Int) := by
  simp [twos, h]

theorem twos_pad_zero (k : Nat) (mag : Bytes) (h : 0 < k ∨ mag.headD 0 < 0x80) :
    twos (List.replicate k 0 ++ mag) = (beVal mag : Int) := by
  have hv : beVal (List.replicate k 0 ++ mag) = beVal mag := by
    rw [beVal_append, beVal_replicate_zero]; omega
  cases k with
  | zero =>
    cases mag with
    | nil => rfl
    | cons b0 tl =>
      have hb : b0 < 0x80 := by simpa using h
      simpa using twos_cons_lt b0 tl hb
  | succ k =>
    rw [← hv, List.replicate_succ, List.cons_append]
    exact twos_cons_lt _ _ (by decide)

theorem twos_pad_ff (k : Nat) (b : Bytes) (hne : b ≠ []) (h : 0 < k ∨ ¬ b.headD 0 < 0x80) :
    twos (List.replicate k 0xFF ++ b) = (beVal b : Int) - ((256 ^ b.length : Nat) : Int) := by
  cases k with
  | zero =>
    cases b with
    | nil => exact absurd rfl hne
    | cons b0 tl =>
      have hb : ¬ b0 < 0x80 := by simpa using h
      simpa using twos_cons_ge b0 tl hb
  | succ k =>
    have hv : beVal (List.replicate (k + 1) 0xFF ++ b) + 256 ^ b.length
        = 256 ^ (k + 1 + b.length) + beVal b := by
      have := beVal_replicate_ff (k + 1)
      rw [beVal_append, Nat.pow_add, ← this, Nat.add_mul]
      omega
    have hl : (List.replicate (k + 1) (0xFF : UInt8) ++ b).length = k + 1 + b.length := by simp
    rw [List.replicate_succ, List.cons_append] at hv hl ⊢
    rw [twos_cons_ge _ _ (by decide)]
    simp only [List.length_cons] at hl
    rw [hl]
    omega

/-! ### closed forms of `encodeBig` -/

/-- number of `0x00` pad bytes in front of a positive magnitude. -/
def posPad (mag : Bytes) : Nat :=
  if ¬ mag.headD 0 < 0x80 ∧ padForLen mag.length 8 = 0 then 8 else padForLen mag.length 8

/-- number of `0xFF` pad bytes in front of a negated magnitude. -/
def negPad (b : Bytes) : Nat :=
  if b.headD 0 < 0x80 ∧ padForLen b.length 8 = 0 then 8 else padForLen b.length 8

/-- the complemented magnitude of a negative value. -/
def negBody (v : Int) : Bytes := (negEncLE (natToBytesBE v.natAbs).reverse 1).reverse

theorem negBody_length (v : Int) : (negBody v).length = (natToBytesBE v.natAbs).length := by
  simp [negBody, negEncLE_length]

theorem encodeBig_zero : encodeBig 0 = List.replicate 8 0 := by
  simp [encodeBig, bigIntToBytes]

theorem encodeBig_pos (v : Int) (h : 0 < v) :
    encodeBig v = List.replicate (posPad (natToBytesBE v.natAbs)) 0 ++ natToBytesBE v.natAbs := by
  have h1 : ¬ v < 0 := by omega
  have h2 : ¬ v = 0 := by omega
  have e : ((0 : UInt8) &&& 1) = 0 := by decide
  simp only [encodeBig, bigIntToBytes, h1, h2, if_false, posPad, e]
  simp only [ne_eq, UInt8.topbit_zero_iff]
  simp

theorem encodeBig_neg (v : Int) (h : v < 0) :
    encodeBig v = List.replicate (negPad (negBody v)) 0xFF ++ negBody v := by
  have e : ((0xFF : UInt8) &&& 1) = 1 := by decide
  have e2 : ∀ x : UInt8, (¬ ((x >>> 7) &&& 1 = 1)) ↔ x < 0x80 := by
    intro x; rw [UInt8.topbit_one_iff]; exact Decidable.not_not
  simp only [encodeBig, bigIntToBytes, h, if_true, negPad, e]
  simp only [e2, ← negBody.eq_1, negBody_length]
  simp

theorem posPad_mod (mag : Bytes) : (posPad mag + mag.length) % 8 = 0 := by
  have := padForLen_mod mag.length
  unfold posPad; split <;> omega

theorem negPad_mod (b : Bytes) : (negPad b + b.length) % 8 = 0 := by
  have := padForLen_mod b.length
  unfold negPad; split <;> omega

theorem posPad_head (mag : Bytes) : 0 < posPad mag ∨ mag.headD 0 < 0x80 := by
  unfold posPad
  by_cases h : mag.headD 0 < 0x80
  · exact Or.inr h
  · left
    by_cases hp : padForLen mag.length 8 = 0
    · rw [if_pos ⟨h, hp⟩]; decide
    · rw [if_neg (fun hc => hp hc.2)]; omega

theorem negPad_head (b : Bytes) : 0 < negPad b ∨ ¬ b.headD 0 < 0x80 := by
  unfold negPad
  by_cases h : b.headD 0 < 0x80
  · left
    by_cases hp : padForLen b.length 8 = 0
    · rw [if_pos ⟨h, hp⟩]; decide
    · rw [if_neg (fun hc => hp hc.2)]; omega
  · exact Or.inr h

/-! ### main facts about `encodeBig` / `bytesToBigInt` -/

theorem negBody_ne_nil (v : Int) (h : v < 0) : negBody v ≠ [] := by
  intro e
  have h1 := negBody_length v
  have h2 := natToBytesBE_length_pos (n := v.natAbs) (by omega)
  rw [e] at h1
  simp at h1
  omega

theorem twos_encodeBig (v : Int) : twos (encodeBig v) = v := by
  rcases Int.lt_trichotomy v 0 with h | h | h
  · rw [encodeBig_neg v h, twos_pad_ff _ _ (negBody_ne_nil v h) (negPad_head _), negBody_length]
    have hn : v.natAbs ≠ 0 := by omega
    have := beVal_negEnc (natToBytesBE v.natAbs) (by rw [beVal_natToBytesBE]; exact hn)
    rw [beVal_natToBytesBE] at this
    unfold negBody
    omega
  · subst h; rw [encodeBig_zero]; decide
  · rw [encodeBig_pos v h, twos_pad_zero _ _ (posPad_head _), beVal_natToBytesBE]
    omega

theorem encodeBig_length_mod (v : Int) : (encodeBig v).length % 8 = 0 := by
  rcases Int.lt_trichotomy v 0 with h | h | h
  · rw [encodeBig_neg v h]
    simpa using negPad_mod (negBody v)
  · subst h; rw [encodeBig_zero]; rfl
  · rw [encodeBig_pos v h]
    simpa using posPad_mod (natToBytesBE v.natAbs)

theorem encodeBig_length_pos (v : Int) : 0 < (encodeBig v).length := by
  rcases Int.lt_trichotomy v 0 with h | h | h
  · rw [encodeBig_neg v h]
    have h2 := natToBytesBE_length_pos (n := v.natAbs) (by omega)
    have := negBody_length v
    simp only [List.length_append, List.length_replicate]
    omega
  · subst h; rw [encodeBig_zero]; decide
  · rw [encodeBig_pos v h]
    have h2 := natToBytesBE_length_pos (n := v.natAbs) (by omega)
    simp only [List.length_append, List.length_replicate]
    omega

theorem encodeBig_ne_nil (v : Int) : encodeBig v ≠ [] := by
  intro e
  have := encodeBig_length_pos v
  rw [e] at this
  simp at this

theorem bytesToBigInt_eq_twos_aux (bs : Bytes) (h : bs ≠ []) : bytesToBigInt bs = twos bs := by
  cases bs with
  | nil => exact absurd rfl h
  | cons b0 tl =>
    by_cases hb : b0 < 0x80
    · simp [bytesToBigInt, twos, hb]
    · rw [twos_cons_ge _ _ hb]
      have e : bytesToBigInt (b0 :: tl)
          = -((beVal (negDecLE (b0 :: tl).reverse 1).reverse : Nat) : Int) := by
        simp [bytesToBigInt, hb]
      rw [e, negDecLE_one_eq]
      have := beVal_negEnc (b0 :: tl) (beVal_pos_of_head b0 tl hb)
      simp only [List.length_cons] at this
      omega

/-! ### minimality of `encodeBig` among 8-aligned two's complement encodings -/

theorem pow256_lt {a b : Nat} (h : 256 ^ a < 256 ^ b) : a < b :=
  (Nat.pow_lt_pow_iff_right (by decide)).1 h

theorem pow256_pred {m : Nat} (h : 0 < m) : 256 ^ m = 256 * 256 ^ (m - 1) := by
  cases m with
  | zero => omega
  | succ k => rw [Nat.pow_succ, Nat.add_sub_cancel]; omega

theorem beVal_lt_of_head (l : Bytes) (hne : l ≠ []) (h : l.headD 0 < 0x80) :
    beVal l < 128 * 256 ^ (l.length - 1) := by
  cases l with
  | nil => exact absurd rfl hne
  | cons b0 tl =>
    have hb : b0.toNat < 128 := (UInt8.lt_0x80_iff b0).1 (by simpa using h)
    have := beVal_lt tl
    have h2 : b0.toNat * 256 ^ tl.length ≤ 127 * 256 ^ tl.length :=
      Nat.mul_le_mul_right _ (by omega)
    rw [beVal_cons]; simp only [List.length_cons, Nat.add_sub_cancel]; omega

theorem beVal_ge_of_head (l : Bytes) (hne : l ≠ []) (h : ¬ l.headD 0 < 0x80) :
    128 * 256 ^ (l.length - 1) ≤ beVal l := by
  cases l with
  | nil => exact absurd rfl hne
  | cons b0 tl =>
    have hb : ¬ b0.toNat < 128 := fun hc => h (by simpa using (UInt8.lt_0x80_iff b0).2 hc)
    have h2 : 128 * 256 ^ tl.length ≤ b0.toNat * 256 ^ tl.length :=
      Nat.mul_le_mul_right _ (by omega)
    rw [beVal_cons]; simp only [List.length_cons, Nat.add_sub_cancel]; omega

theorem twos_of_head_lt (l : Bytes) (h : l.headD 0 < 0x80) : twos l = (beVal l : Int) := by
  cases l with
  | nil => rfl
  | cons b0 tl => exact twos_cons_lt b0 tl (by simpa using h)

theorem twos_of_head_ge (l : Bytes) (hne : l ≠ []) (h : ¬ l.headD 0 < 0x80) :
    twos l = (beVal l : Int) - ((256 ^ l.length : Nat) : Int) := by
  cases l with
  | nil => exact absurd rfl hne
  | cons b0 tl => exact twos_cons_ge b0 tl (by simpa using h)

theorem length_pos_of_ne_nil {l : Bytes} (h : l ≠ []) : 0 < l.length := by
  cases l with
  | nil => exact absurd rfl h
  | cons _ _ => simp

theorem encodeBig_minimal_aux (v : Int) (bs : Bytes) (hne : bs ≠ []) (h8 : bs.length % 8 = 0)
    (hv : twos bs = v) : (encodeBig v).length ≤ bs.length := by
  have hn := length_pos_of_ne_nil hne
  have hQ := pow256_pred hn
  have hub := beVal_lt bs
  rcases Int.lt_trichotomy v 0 with h | h | h
  · -- negative
    have hb : ¬ bs.headD 0 < 0x80 := by
      intro hb; rw [twos_of_head_lt bs hb] at hv; omega
    rw [twos_of_head_ge bs hne hb] at hv
    have hlo := beVal_ge_of_head bs hne hb
    have hA : v.natAbs ≠ 0 := by omega
    have hm := natToBytesBE_length_pos hA
    have hlower := natToBytesBE_lower hA
    have hupper := beVal_lt (natToBytesBE v.natAbs)
    rw [beVal_natToBytesBE] at hupper
    have hP := pow256_pred hm
    have hneg := beVal_negEnc (natToBytesBE v.natAbs) (by rw [beVal_natToBytesBE]; exact hA)
    rw [beVal_natToBytesBE, ← negBody.eq_1] at hneg
    have hbl := negBody_length v
    have hbne := negBody_ne_nil v h
    rw [encodeBig_neg v h]
    simp only [List.length_append, List.length_replicate]
    unfold negPad
    by_cases hc : (negBody v).headD 0 < 0x80 ∧ padForLen (negBody v).length 8 = 0
    · rw [if_pos hc]
      have h1 := beVal_lt_of_head _ hbne hc.1
      have h2 := (padForLen_eq_zero_iff _).1 hc.2
      rw [hbl] at h1 h2 ⊢
      have : 256 ^ ((natToBytesBE v.natAbs).length - 1) < 256 ^ (bs.length - 1) := by omega
      have := pow256_lt this
      omega
    · rw [if_neg hc, hbl]
      have : 256 ^ ((natToBytesBE v.natAbs).length - 1) < 256 ^ bs.length := by omega
      have := pow256_lt this
      unfold padForLen
      omega
  · subst h
    rw [encodeBig_zero]; simp only [List.length_replicate]; omega
  · have hb : bs.headD 0 < 0x80 := by
      apply Decidable.byContradiction; intro hb
      rw [twos_of_head_ge bs hne hb] at hv; omega
    rw [twos_of_head_lt bs hb] at hv
    have hhi := beVal_lt_of_head bs hne hb
    have hA : v.natAbs ≠ 0 := by omega
    have hm := natToBytesBE_length_pos hA
    have hlower := natToBytesBE_lower hA
    have hmne := natToBytesBE_ne_nil hA
    have hval := beVal_natToBytesBE v.natAbs
    have hP := pow256_pred hm
    rw [encodeBig_pos v h]
    simp only [List.length_append, List.length_replicate]
    unfold posPad
    by_cases hc : ¬ (natToBytesBE v.natAbs).headD 0 < 0x80 ∧
        padForLen (natToBytesBE v.natAbs).length 8 = 0
    · rw [if_pos hc]
      have h1 := beVal_ge_of_head _ hmne hc.1
      have h2 := (padForLen_eq_zero_iff _).1 hc.2
      have : 256 ^ ((natToBytesBE v.natAbs).length - 1) < 256 ^ (bs.length - 1) := by omega
      have := pow256_lt this
      omega
    · rw [if_neg hc]
      have : 256 ^ ((natToBytesBE v.natAbs).length - 1) < 256 ^ bs.length := by omega
      have := pow256_lt this
      unfold padForLen
      omega

end Kmip
