package main

// Engine `batch`, cases around the middleware-free model:
//
//	batch.mw <chain> <request>       the real executor with batch-item middlewares installed; compared with the
//	                                 model's generic loop (`Batch.loopG`, theorems C09.chain_loop_*) and checked
//	                                 against an independent prediction
//
// and impl-side cases without a model counterpart (lines starting with '#'):
//
//	#batch.http <variant>            handleMessageError through kmipserver.NewHTTPHandler (half-decoded request)
//	#batch.nilreq <variant>          handleMessageError(nil request) through a real kmipserver.Server, in a child process
//
// C09's model has no middleware (C19 models one chain around ONE item). What is checked here is the interaction the
// two models leave out: the batch loop around the item chain — every middleware sees every processed item exactly
// once and in order (no chain state leaking from one item of a batch to the next), and the Stop decision is taken on
// the item as it comes OUT of the chain.

import (
	"bytes"
	"context"
	"fmt"
	"net/http"
	"net/http/httptest"
	"os"
	"os/exec"
	"sort"
	"strconv"
	"strings"
	"time"

	"github.com/ovh/kmip-go"
	"github.com/ovh/kmip-go/kmipserver"
	"github.com/ovh/kmip-go/ttlv"

	"verifharness/internal/report"
	"verifharness/internal/rng"
)

// one stage of the item chain. kind: 'T' transparent, 'M' masks a failure of the items in set (answers success
// instead), 'R' refuses the items in set without calling next (returns (nil, error)), 'E' lets the items in set
// through and then reports an error together with the response item, 'P' panics on the items in set without
// calling next, 'Q' lets them through and then panics; and the ways a stage can fail an item AFTER the rest of the
// chain (and the handler, which may have stored a placeholder) ran: 'F' marks the response item OperationFailed
// ITSELF (reason, message; a fresh item when next gave none) and also returns the error, 'G' marks it failed and
// returns NO error, 'N' returns (nil, error), 'K' returns (nil, nil); 'D' denies without calling next by returning
// a fresh item it marked OperationFailed together with the error. A panic unwinds through the stages around it (a masking
// stage cannot mask it) up to the last-resort recovery of executeItemWithMiddleware, which must fail THIS item
// only (echoing operation and id) and let the batch go on.
type bmwStage struct {
	kind byte
	set  map[int]bool
}

func (s bmwStage) String() string {
	if s.kind == 'T' {
		return "T"
	}
	var idx []int
	for i := range s.set {
		idx = append(idx, i)
	}
	sort.Ints(idx)
	p := make([]string, len(idx))
	for i, v := range idx {
		p[i] = strconv.Itoa(v)
	}
	return string(s.kind) + strings.Join(p, ".")
}

func bmwRenderChain(c []bmwStage) string {
	p := make([]string, len(c))
	for i, s := range c {
		p[i] = s.String()
	}
	return strings.Join(p, ",")
}

func bmwParseChain(s string) ([]bmwStage, error) {
	var out []bmwStage
	for _, p := range strings.Split(s, ",") {
		if p == "" || !strings.Contains(bmwKinds, p[:1]) {
			return nil, fmt.Errorf("bad stage %q", p)
		}
		st := bmwStage{kind: p[0], set: map[int]bool{}}
		if len(p) > 1 {
			for _, x := range strings.Split(p[1:], ".") {
				v, err := strconv.Atoi(x)
				if err != nil {
					return nil, err
				}
				st.set[v] = true
			}
		}
		out = append(out, st)
	}
	return out, nil
}

const bmwKinds = "TMREPQFGNKD"

type bmwLog struct {
	enter [][]int // per stage: item indices it was entered for, in order
	bad   string
}

// bmwItemIndexOf finds which item of the request in flight a middleware was given (the payload pointer is the
// request's own).
func bmwItemIndexOf(bi *kmip.RequestBatchItem) int {
	if bi == nil || bi.RequestPayload == nil {
		return -1
	}
	if ref, ok := lookupPayload(bi.RequestPayload); ok {
		return ref.idx
	}
	return -1
}

func bmwExecutor(r *bReq, chain []bmwStage, log *bmwLog) *kmipserver.BatchExecutor {
	e := kmipserver.NewBatchExecutor()
	if len(r.vers) > 0 {
		e.SetSupportedProtocolVersions(r.vers...)
	}
	for _, op := range r.routes {
		e.Route(kmip.Operation(op), scriptHandler{})
	}
	log.enter = make([][]int, len(chain))
	for k := range chain {
		k, st := k, chain[k]
		e.BatchItemUse(func(next kmipserver.BatchItemNext, ctx context.Context, bi *kmip.RequestBatchItem) (*kmip.ResponseBatchItem, error) {
			i := bmwItemIndexOf(bi)
			if i < 0 {
				log.bad = "a middleware was given an item that is not one of the request's"
			}
			log.enter[k] = append(log.enter[k], i)
			switch {
			case st.kind == 'R' && st.set[i]:
				return nil, kmipserver.Error{Reason: kmip.ResultReasonPermissionDenied, Message: "refused by middleware"}
			case st.kind == 'M' && st.set[i]:
				resp, err := next(ctx, bi)
				if err != nil || resp == nil || resp.ResultStatus != kmip.ResultStatusSuccess {
					return &kmip.ResponseBatchItem{Operation: bi.Operation, UniqueBatchItemID: bi.UniqueBatchItemID}, nil
				}
				return resp, nil
			case st.kind == 'E' && st.set[i]:
				resp, _ := next(ctx, bi)
				return resp, kmipserver.Error{Reason: kmip.ResultReasonGeneralFailure, Message: "failed by middleware"}
			case st.kind == 'F' && st.set[i], st.kind == 'G' && st.set[i]:
				resp, _ := next(ctx, bi)
				if resp == nil {
					resp = &kmip.ResponseBatchItem{Operation: bi.Operation, UniqueBatchItemID: bi.UniqueBatchItemID}
				}
				resp.ResponsePayload = nil
				resp.ResultStatus = kmip.ResultStatusOperationFailed
				resp.ResultReason = kmip.ResultReasonPermissionDenied
				resp.ResultMessage = "denied by middleware"
				if st.kind == 'G' {
					return resp, nil
				}
				return resp, kmipserver.Error{Reason: kmip.ResultReasonPermissionDenied, Message: "denied by middleware"}
			case st.kind == 'N' && st.set[i]:
				_, _ = next(ctx, bi)
				return nil, kmipserver.Error{Reason: kmip.ResultReasonPermissionDenied, Message: "dropped by middleware"}
			case st.kind == 'K' && st.set[i]:
				_, _ = next(ctx, bi)
				return nil, nil
			case st.kind == 'D' && st.set[i]:
				return &kmip.ResponseBatchItem{Operation: bi.Operation, UniqueBatchItemID: bi.UniqueBatchItemID,
					ResultStatus: kmip.ResultStatusOperationFailed, ResultReason: kmip.ResultReasonPermissionDenied, ResultMessage: "denied by middleware",
				}, kmipserver.Error{Reason: kmip.ResultReasonPermissionDenied, Message: "denied by middleware"}
			case st.kind == 'P' && st.set[i]:
				panic("scripted: batch item middleware panics")
			case st.kind == 'Q' && st.set[i]:
				_, _ = next(ctx, bi)
				var m map[int]int
				m[i] = k // runtime error after the rest of the chain ran
			}
			return next(ctx, bi)
		})
	}
	return e
}

// bmwPredict: an independent straight-line statement of what must happen — per item the status it leaves the chain
// with, whether its handler runs, which stages are entered, and what the handlers read (C15: the placeholder is
// cleared by handleBatchItemError — that is when an error comes OUT of the chain, or when executeItem recovers a
// handler panic — and by the last-resort recovery; an error swallowed by a masking stage clears nothing).
func bmwPredict(r *bReq, chain []bmwStage) (failed []bool, calls []int, enter [][]int, obs []obsEv) {
	n := len(r.items)
	failed, enter = make([]bool, n), make([][]int, len(chain))
	type out struct{ failedResp, err, unwinding bool }
	stopped := false
	cur := 0
	for i := range r.items {
		it := &r.items[i]
		if stopped {
			failed[i] = true
			continue
		}
		var eval func(k int) out
		eval = func(k int) out {
			if k == len(chain) {
				switch {
				case it.ext == 'c':
					return out{err: true}
				case !r.routed(it.op):
					return out{err: !it.disc}
				}
				calls = append(calls, i)
				for _, a := range it.acts {
					switch a.kind {
					case 'r':
						obs = append(obs, obsEv{i, cur})
					case 's':
						cur = a.v
					case 'c':
						cur = 0
					}
				}
				switch it.out {
				case "ok":
					return out{}
				case "e", "x":
					return out{err: true} // returned, not rendered yet
				}
				cur = 0 // the recovery of executeItem calls handleBatchItemError, which clears first
				return out{failedResp: true, unwinding: r.poisonPanic(i)}
			}
			enter[k] = append(enter[k], i)
			st := chain[k]
			if !st.set[i] || st.kind == 'T' {
				return eval(k + 1)
			}
			switch st.kind {
			case 'R':
				return out{err: true}
			case 'P':
				return out{failedResp: true, unwinding: true}
			case 'D':
				return out{failedResp: true, err: true}
			}
			x := eval(k + 1)
			if x.unwinding {
				return x
			}
			switch st.kind {
			case 'M':
				return out{}
			case 'E':
				return out{failedResp: x.failedResp, err: true}
			case 'Q':
				return out{failedResp: true, unwinding: true}
			case 'F':
				return out{failedResp: true, err: true}
			case 'G':
				// the item leaves the chain failed but WITHOUT an error: handleBatchItemError is not called, the
				// placeholder stays as the handler left it (the code of today; the property text does not demand more)
				return out{failedResp: true}
			case 'N', 'K':
				return out{err: true} // (nil, nil) becomes "No response for batch item"
			}
			return x
		}
		x := eval(0)
		failed[i] = x.failedResp || x.err || x.unwinding
		if x.err || x.unwinding {
			cur = 0
		}
		if failed[i] && r.opt == uint32(kmip.BatchErrorContinuationOptionStop) {
			stopped = true
		}
	}
	return
}

func bmwCase(ctx *Ctx, r *bReq, chain []bmwStage, origin string) {
	line := "batch.mw " + bmwRenderChain(chain) + " " + r.encode()
	for i := range r.items {
		if !r.accepted() || !r.poisonPanic(i) || !r.reachesHandler(&r.items[i]) {
			continue
		}
		for _, st := range chain {
			if st.kind == 'M' && st.set[i] {
				// the model's item outcome alphabet does not tell a panic that escapes executeItem from one it
				// recovers: checked by the impl-side prediction only
				line = "#" + line
				break
			}
		}
		if line[0] == '#' {
			break
		}
	}
	impl, implObs := "", "ok obs=-"
	ctx.current = line
	viol := func(oracle, key, detail string) {
		ctx.Res.Violate(report.Violation{Property: "C09", Oracle: oracle, Key: "batch.mw:" + key, Detail: detail, Line: line})
	}
	log := &bmwLog{}
	e := bmwExecutor(r, chain, log)
	st := &reqState{req: r}
	serial := reqSerial.Add(1)
	reqRegistry.Store(serial, st)
	defer reqRegistry.Delete(serial)
	msg := r.message(serial)
	for i := range msg.BatchItem {
		pl := msg.BatchItem[i].RequestPayload
		payloadReg.Store(pl, payloadRef{st, i})
		defer payloadReg.Delete(pl)
	}
	// two runs on the same executor: state must not leak from one request to the next either
	for round := 0; round < 2; round++ {
		st.calls, st.obs = nil, nil
		for k := range log.enter {
			log.enter[k] = nil
		}
		resp, p := guard("HandleRequest", func() *kmip.ResponseMessage { return e.HandleRequest(context.Background(), msg) })
		if p != "" {
			viol("no-panic", "panic "+panicKey(p), "HandleRequest panicked: "+p)
			impl = "panic " + panicKey(p)
			break
		}
		if round == 0 {
			impl = bmwRender(resp, log)
		}
		if st.bad != "" || log.bad != "" {
			ctx.Res.Fail(st.bad + log.bad + ": " + line)
		}
		if resp == nil {
			viol("response", "nil-response", "HandleRequest returned nil")
			break
		}
		if !r.accepted() {
			if len(resp.BatchItem) != 1 || resp.BatchItem[0].ResultStatus != kmip.ResultStatusOperationFailed || len(st.calls) != 0 {
				viol("rejected", "rejected", fmt.Sprintf("rejected request: %d items, handlers %v", len(resp.BatchItem), st.calls))
			}
			for k := range log.enter {
				if len(log.enter[k]) != 0 {
					viol("rejected", "rejected-but-chain-entered", fmt.Sprintf("item middleware %d entered for items %v of a request that must be rejected", k, log.enter[k]))
				}
			}
			continue
		}
		n := len(r.items)
		if len(resp.BatchItem) != n || int(resp.Header.BatchCount) != n || resp.Header.ProtocolVersion != r.ver {
			viol("one-per-item", "shape", fmt.Sprintf("%d items, count %d, version %s for %d request items", len(resp.BatchItem), resp.Header.BatchCount, verStr(resp.Header.ProtocolVersion), n))
			break
		}
		wantFailed, wantCalls, wantEnter, wantObs := bmwPredict(r, chain)
		if renderObs(st.obs) != renderObs(wantObs) {
			key := "place.mw:wrong-value"
			if renderObs(st.obs) != renderObs(soloFrom(r, 0, true)) && len(st.obs) == len(wantObs) {
				own := true // only values of this request: the scoping is intact, the clearing differs
				for _, o := range st.obs {
					ok := o.val == 0
					for _, it := range r.items {
						for _, a := range it.acts {
							ok = ok || (a.kind == 's' && a.v == o.val)
						}
					}
					own = own && ok
				}
				if own {
					key = "place.mw:not-cleared-after-failed-item"
				}
			}
			ctx.Res.Violate(report.Violation{Property: "C15", Oracle: "placeholder-under-item-middlewares", Key: key,
				Detail: fmt.Sprintf("with item middlewares %s the handlers read %s, expected %s (round %d)", bmwRenderChain(chain), renderObs(st.obs), renderObs(wantObs), round), Line: line})
		}
		if round == 0 {
			implObs = "ok obs=" + renderObs(st.obs)
		}
		for i := range r.items {
			if resp.BatchItem[i].Operation != msg.BatchItem[i].Operation || !bytes.Equal(resp.BatchItem[i].UniqueBatchItemID, msg.BatchItem[i].UniqueBatchItemID) {
				viol("echo", "not-echoed", fmt.Sprintf("item %d: operation/id %d/%x answered with %d/%x", i, msg.BatchItem[i].Operation, msg.BatchItem[i].UniqueBatchItemID, resp.BatchItem[i].Operation, resp.BatchItem[i].UniqueBatchItemID))
			}
			if got := resp.BatchItem[i].ResultStatus != kmip.ResultStatusSuccess; got != wantFailed[i] {
				viol("status", "status", fmt.Sprintf("item %d reported failed=%v, expected %v (option %d, round %d)", i, got, wantFailed[i], r.opt, round))
			}
		}
		if fmt.Sprint(st.calls) != fmt.Sprint(wantCalls) {
			viol("order", "handler-calls", fmt.Sprintf("handlers ran for items %v, expected %v (option %d, round %d)", st.calls, wantCalls, r.opt, round))
		}
		for k := range chain {
			if fmt.Sprint(log.enter[k]) != fmt.Sprint(wantEnter[k]) {
				viol("item-chain", "stage-entries", fmt.Sprintf("item middleware %d (%s) was entered for items %v, expected %v (round %d)", k, chain[k], log.enter[k], wantEnter[k], round))
			}
		}
		// the property itself, on the response: under Stop nothing after the first failed item runs or succeeds
		if r.opt == uint32(kmip.BatchErrorContinuationOptionStop) {
			first := -1
			for i := 0; i < n; i++ {
				if resp.BatchItem[i].ResultStatus != kmip.ResultStatusSuccess {
					first = i
					break
				}
			}
			if first >= 0 {
				for _, c := range st.calls {
					if c > first {
						viol("stop", "executed-after-stop", fmt.Sprintf("item %d executed after item %d was answered failed under Stop", c, first))
					}
				}
				for j := first + 1; j < n; j++ {
					if resp.BatchItem[j].ResultStatus == kmip.ResultStatusSuccess {
						viol("stop", "success-after-stop", fmt.Sprintf("item %d reported successful after item %d failed under Stop", j, first))
					}
				}
			}
		}
	}
	ctx.Add(line, impl, len(r.items) > 1, "C09")
	// C15 under item middlewares: what the handlers read (a line of its own, like place.obs)
	if !strings.HasPrefix(impl, "panic") {
		ctx.Add(strings.Replace(line, "batch.mw ", "place.mw ", 1), implObs, implObs != "ok obs=-", "C15")
	}
	if origin != "" {
		ctx.Res.Count("batch.mw." + origin)
	}
}

// bmwRender: version, count, per item operation:id:status, and the items the outermost stage was entered for.
func bmwRender(resp *kmip.ResponseMessage, log *bmwLog) string {
	if resp == nil {
		return "ok nil-response"
	}
	full := renderResp(resp, &reqState{})
	full = full[:strings.Index(full, " calls=")]
	entered := "-"
	if len(log.enter) > 0 && len(log.enter[0]) > 0 {
		p := make([]string, len(log.enter[0]))
		for i, c := range log.enter[0] {
			p[i] = strconv.Itoa(c)
		}
		entered = strings.Join(p, ".")
	}
	return full + " entered=" + entered
}

func bmwRandomChain(r *rng.R, n int) []bmwStage {
	var chain []bmwStage
	for k := 1 + r.Intn(3); k > 0; k-- {
		st := bmwStage{kind: rng.Pick(r, []byte{'T', 'T', 'M', 'M', 'R', 'E', 'P', 'Q', 'F', 'F', 'G', 'N', 'K', 'D'}), set: map[int]bool{}}
		if st.kind != 'T' {
			for i := 0; i < n; i++ {
				if r.Chance(1, 3) {
					st.set[i] = true
				}
			}
		}
		chain = append(chain, st)
	}
	return chain
}

func runBatchMw(ctx *Ctx) {
	r := ctx.R
	// exhaustive small: every word of length <= 3 over {success, typed error, panic, unrouted, critical} x {unset, Stop}
	// x a transparent stage, and a masking / refusing / failing stage on each single position
	outs := []int{oSuccess, oTyped, oPanic, oUnrouted, oCritical}
	for n := 1; n <= 3; n++ {
		word := make([]int, n)
		for {
			for _, opt := range []uint32{0, 2} {
				q := &bReq{routes: []uint32{1, 2, 3}, ver: liveDefaultVersions()[0], opt: opt, count: int32(n)}
				for i, o := range word {
					q.items = append(q.items, alphabetItem(i, outs[o], true))
				}
				bmwCase(ctx, q, []bmwStage{{kind: 'T'}}, "exhaustive")
				bmwCase(ctx, q, []bmwStage{{kind: 'T'}, {kind: 'T'}}, "exhaustive")
				for pos := 0; pos < n; pos++ {
					for _, k := range []byte{'M', 'R', 'E', 'P', 'Q', 'F', 'G', 'N', 'K', 'D'} {
						bmwCase(ctx, q, []bmwStage{{kind: 'T'}, {kind: k, set: map[int]bool{pos: true}}}, "exhaustive")
						bmwCase(ctx, q, []bmwStage{{kind: k, set: map[int]bool{pos: true}}, {kind: 'T'}}, "exhaustive")
					}
					// a masking stage around a panicking one: the panic is not maskable
					for _, k := range []byte{'P', 'Q'} {
						bmwCase(ctx, q, []bmwStage{{kind: 'M', set: map[int]bool{pos: true}}, {kind: k, set: map[int]bool{pos: true}}}, "exhaustive")
					}
				}
			}
			k := n - 1
			for k >= 0 {
				word[k]++
				if word[k] < len(outs) {
					break
				}
				word[k] = 0
				k--
			}
			if k < 0 {
				break
			}
		}
	}
	// C15 under item middlewares, small: [set 5 ; (set 6, then every outcome) under every stage kind ; read]
	for _, k := range []byte(bmwKinds) {
		for o := 0; o < nOutcomes; o++ {
			for _, opt := range []uint32{0, 2} {
				mid := alphabetItem(1, o, true)
				mid.acts = []bAct{{kind: 's', v: 6}}
				first, last := alphabetItem(0, oSuccess, true), alphabetItem(2, oSuccess, true)
				first.acts, last.acts = []bAct{{kind: 's', v: 5}}, []bAct{{kind: 'r'}}
				q := &bReq{routes: []uint32{1, 2, 3}, ver: liveDefaultVersions()[0], opt: opt, count: 3, items: []bItem{first, mid, last}}
				bmwCase(ctx, q, []bmwStage{{kind: k, set: map[int]bool{1: true}}}, "exhaustive")
				bmwCase(ctx, q, []bmwStage{{kind: 'M', set: map[int]bool{1: true}}, {kind: k, set: map[int]bool{1: true}}}, "exhaustive")
			}
		}
	}
	for i := ctx.N(1500, 20000); i > 0; i-- {
		n := 1 + r.Intn(7)
		if r.Chance(1, 5) {
			n = 5 + r.Intn(20)
		}
		q := randomReq(r, n, 1)
		bmwCase(ctx, q, bmwRandomChain(r, n), "random")
	}
}

// ---- handleMessageError through the other entry points ------------------------------------------------------

type bmwCountingHandler struct{ n *int }

func (h bmwCountingHandler) HandleOperation(ctx context.Context, pl kmip.OperationPayload) (kmip.OperationPayload, error) {
	*h.n++
	return nil, nil
}

// httpBodies: bodies that do not decode to a request message: garbage, and requests cut/corrupted after a header
// that did decode (handleMessageError is then given a half-filled request).
func httpBodies() [][]byte {
	good := goodRequest(1, "ok")
	hdrOnly := append([]byte{}, good[:len(good)-8]...)
	corrupt := append([]byte{}, good...)
	corrupt[len(corrupt)-12] ^= 0xFF
	return [][]byte{badRequest(0), badRequest(1), {1, 2, 3}, hdrOnly, corrupt, bytes.Repeat([]byte{0}, 16)}
}

func httpErrorCase(ctx *Ctx, variant int) {
	line := fmt.Sprintf("#batch.http %d", variant)
	ctx.current = line
	viol := func(key, detail string) {
		ctx.Res.Violate(report.Violation{Property: "C09", Oracle: "rejected", Key: "batch.http:" + key, Detail: detail, Line: line})
	}
	bodies := httpBodies()
	body := bodies[variant%len(bodies)]
	calls := 0
	e := kmipserver.NewBatchExecutor()
	e.Route(kmip.OperationActivate, bmwCountingHandler{&calls})
	h := kmipserver.NewHTTPHandler(e)
	req := httptest.NewRequest(http.MethodPost, "/kmip", bytes.NewReader(body))
	req.Header.Set("Content-Type", "application/octet-stream")
	req.Header.Set("Content-Length", strconv.Itoa(len(body)))
	rec := httptest.NewRecorder()
	_, p := guard("ServeHTTP", func() int { h.ServeHTTP(rec, req); return 0 })
	if p != "" {
		viol("panic "+panicKey(p), "the HTTP handler panicked on an undecodable request: "+p)
	} else {
		var resp kmip.ResponseMessage
		if err := ttlv.UnmarshalTTLV(rec.Body.Bytes(), &resp); err != nil {
			viol("no-response", fmt.Sprintf("undecodable request answered with HTTP %d and a body that is not a response message: %v", rec.Code, err))
		} else if len(resp.BatchItem) != 1 || resp.Header.BatchCount != 1 || resp.BatchItem[0].ResultStatus != kmip.ResultStatusOperationFailed || calls != 0 {
			viol("not-single-failed-item", fmt.Sprintf("undecodable request answered with %d items (count %d), %d handler calls", len(resp.BatchItem), resp.Header.BatchCount, calls))
		}
	}
	ctx.Add(line, "", false, "C09")
	ctx.Res.Count("batch.http")
}

// nilReqChild: in the child process — a real server, a framed but undecodable message, the answer summarised.
func nilReqChild(variant int) {
	quietSlog()
	calls := 0
	e := kmipserver.NewBatchExecutor()
	e.Route(kmip.OperationActivate, bmwCountingHandler{&calls})
	l := newMemListener()
	srv := kmipserver.NewServer(l, e)
	go func() { _ = srv.Serve() }()
	c, err := l.dial(1, 5*time.Second)
	if err != nil {
		fmt.Println("harness-error dial:", err)
		return
	}
	go func() {
		_, _ = c.Write(badRequest(variant % 2))
	}()
	st := ttlv.NewStream(c, 1<<20)
	var resp kmip.ResponseMessage
	done := make(chan error, 1)
	go func() { done <- st.Recv(&resp) }()
	select {
	case err := <-done:
		if err != nil {
			fmt.Println("no-response", err)
			return
		}
	case <-time.After(10 * time.Second):
		fmt.Println("no-response timeout")
		return
	}
	failed := 0
	for _, bi := range resp.BatchItem {
		if bi.ResultStatus == kmip.ResultStatusOperationFailed {
			failed++
		}
	}
	fmt.Printf("items=%d failed=%d count=%d calls=%d\n", len(resp.BatchItem), failed, resp.Header.BatchCount, calls)
}

func init() {
	if v := os.Getenv("VERIF_BATCH_NILREQ"); v != "" {
		n, _ := strconv.Atoi(v)
		nilReqChild(n)
		os.Exit(0)
	}
}

func nilReqCase(ctx *Ctx, variant int) {
	line := fmt.Sprintf("#batch.nilreq %d", variant)
	ctx.current = line
	cmd := exec.Command(os.Args[0])
	cmd.Env = append(os.Environ(), "VERIF_BATCH_NILREQ="+strconv.Itoa(variant))
	var stderr bytes.Buffer
	cmd.Stderr = &stderr
	out, err := cmd.Output()
	got := strings.TrimSpace(string(out))
	switch {
	case strings.HasPrefix(got, "harness-error"):
		ctx.Res.Fail("batch.nilreq: " + got)
	case err != nil || got != "items=1 failed=1 count=1 calls=0":
		detail := fmt.Sprintf("a framed but undecodable message sent to a real server: expected one failed item, count 1, no handler; got %q", got)
		key := "not-single-failed-item"
		if err != nil {
			key = "server-crash " + crashClass(stderr.String())
			detail += fmt.Sprintf(" (%v) %s", err, truncate(stderr.String(), 400))
		}
		ctx.Res.Violate(report.Violation{Property: "C09", Oracle: "rejected", Key: "batch.nilreq:" + key, Detail: detail, Line: line})
	}
	ctx.Add(line, "", false, "C09")
	ctx.Res.Count("batch.nilreq")
}

func runBatchEntryPoints(ctx *Ctx) {
	for v := 0; v < len(httpBodies()); v++ {
		httpErrorCase(ctx, v)
	}
	for v := 0; v < 2; v++ {
		nilReqCase(ctx, v)
	}
}

// replayBatchExtras evaluates the impl-only lines of a replay.
func replayBatchExtras(ctx *Ctx) {
	for _, l := range ctx.Replay {
		l = strings.TrimSpace(l)
		l = strings.TrimPrefix(l, "#") // "#batch.mw …": impl-only variant of a batch.mw line
		if strings.HasPrefix(l, "batch.http ") || strings.HasPrefix(l, "batch.nilreq ") {
			l = "#" + l
		}
		switch {
		case strings.HasPrefix(l, "batch.mw "):
			f := strings.SplitN(strings.TrimPrefix(l, "batch.mw "), " ", 2)
			if len(f) != 2 {
				continue
			}
			chain, err1 := bmwParseChain(f[0])
			r, err2 := parseBReq(f[1])
			if err1 != nil || err2 != nil {
				ctx.Res.Fail("replay: bad line " + l)
				continue
			}
			bmwCase(ctx, r, chain, "")
		case strings.HasPrefix(l, "#batch.http "):
			v, _ := strconv.Atoi(strings.TrimPrefix(l, "#batch.http "))
			httpErrorCase(ctx, v)
		case strings.HasPrefix(l, "#batch.nilreq "):
			v, _ := strconv.Atoi(strings.TrimPrefix(l, "#batch.nilreq "))
			nilReqCase(ctx, v)
		}
	}
}
