/-
  Certificate obligations, parts 10..11 of 16 of the `current` client system (kernel evaluation; 8 modules
  so that lake checks them in parallel). Assembled in `Lemmas/CliCert.lean`.
-/
import KmipModel.Model.CliConn
import KmipModel.Gen.CertCliConn
namespace Kmip.CliCert
open Kmip.CliLts Kmip.CliConn Kmip.Gen.CertCliConn

theorem cuClosed10 : partClosed (sys current) codec certCurrent cuP10 = true := by decide +kernel
theorem cuSafe10 : partSafe codec (bad current) cuP10 = true := by decide +kernel
theorem cuClosed11 : partClosed (sys current) codec certCurrent cuP11 = true := by decide +kernel
theorem cuSafe11 : partSafe codec (bad current) cuP11 = true := by decide +kernel

end Kmip.CliCert
