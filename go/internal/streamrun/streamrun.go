// Package streamrun drives ttlv.Stream.Recv over a scripted transport and renders what can be observed
// from outside: per call the outcome, the transport position, and the capacity of the receive buffer as
// seen through the slices handed to Read. It is shared by the `stream` engine of the harness and by
// cmd/stream32 (the same runs on a 32-bit build of the library), so it must compile for GOARCH=386.
package streamrun

import (
	"encoding/hex"
	"errors"
	"fmt"
	"runtime"
	"strconv"
	"strings"

	"github.com/ovh/kmip-go/ttlv"
)

// ErrTransport is the error the scripted transport returns (alone or together with data).
var ErrTransport = errors.New("transport error")

// ReadEv is one scheduled Read: deliver at most K bytes; WithErr: return an error together with the data.
type ReadEv struct {
	K       int
	WithErr bool
}

// Transport delivers Wire according to Sched (same semantics as Kmip.Transport.read in the Lean model):
// when the schedule is exhausted a Read delivers everything requested; a Read on an empty wire returns
// (0, ErrTransport).
type Transport struct {
	Wire  []byte
	Pos   int
	Sched []ReadEv

	MaxReq   int // largest len(p) ever requested
	Requests int
	Written  [][]byte // one entry per Write call

	// the current Recv call (reset by Begin)
	start   int // Pos when the call started
	reads   int
	c0      int // capacity of the receive buffer at the first Read of the call
	realCap int // capacity at the last Read
	reqCap  int // what the capacity was last grown for: c0, or read+len(p) at the Read that first saw a new capacity
	maxCap  int
}

// Begin marks the start of a Recv call.
func (t *Transport) Begin() {
	t.start, t.reads, t.c0, t.realCap, t.reqCap, t.maxCap = t.Pos, 0, 0, 0, 0, 0
}

func (t *Transport) Read(p []byte) (int, error) {
	t.Requests++
	if len(p) > t.MaxReq {
		t.MaxReq = len(p)
	}
	// Recv reads into buf[read:need]: cap(p) = cap(buf) - read, and read = bytes delivered so far in this call.
	read := t.Pos - t.start
	c := cap(p) + read
	if t.reads == 0 {
		t.c0, t.reqCap = c, c
	} else if c != t.realCap {
		t.reqCap = read + len(p)
	}
	t.realCap = c
	if c > t.maxCap {
		t.maxCap = c
	}
	t.reads++

	rem := t.Wire[t.Pos:]
	if len(t.Sched) == 0 {
		if len(rem) == 0 {
			return 0, ErrTransport
		}
		n := copy(p, rem)
		t.Pos += n
		return n, nil
	}
	ev := t.Sched[0]
	t.Sched = t.Sched[1:]
	if len(rem) == 0 {
		return 0, ErrTransport
	}
	n := min(ev.K, len(p), len(rem))
	copy(p, rem[:n])
	t.Pos += n
	if ev.WithErr {
		return n, ErrTransport
	}
	return n, nil
}

func (t *Transport) Write(p []byte) (int, error) {
	t.Written = append(t.Written, append([]byte{}, p...))
	return len(p), nil
}
func (t *Transport) Close() error { return nil }

// Recv is what one Stream.Recv call did.
type Recv struct {
	Kind     string // "m" (returned nil), "err", "panic"
	Err      error
	Panic    string
	Pos      int // transport position after the call
	Consumed int
	Reads    int
	C0       int // buffer capacity at the first Read
	RealCap  int // buffer capacity at the last Read
	MaxCap   int
	ReqCap   int    // C0 when the buffer was never grown, otherwise the size it was grown for
	Alloc    uint64 // bytes allocated by the process during the call (Options.MeasureAlloc)
	Value    ttlv.Value
}

type Options struct {
	MeasureAlloc bool
	// Wrap, when set, runs each Recv call (the harness passes its watchdog guard).
	Wrap func(call func())
}

// Run calls Recv until one call does not return a message or len(wire)/8+2 calls have been made (the
// bound the model uses). more = the bound was reached.
func Run(max int, wire []byte, sched []ReadEv, opt Options) (recvs []Recv, more bool, tr *Transport) {
	tr = &Transport{Wire: wire, Sched: append([]ReadEv{}, sched...)}
	st := ttlv.NewStream(tr, max)
	limit := len(wire)/8 + 2
	for i := 0; i < limit; i++ {
		r := Recv{}
		tr.Begin()
		var ms0, ms1 runtime.MemStats
		call := func() {
			defer func() {
				if p := recover(); p != nil {
					r.Kind, r.Panic = "panic", fmt.Sprint(p)
				}
			}()
			if opt.MeasureAlloc {
				runtime.ReadMemStats(&ms0)
			}
			err := st.Recv(&r.Value)
			if opt.MeasureAlloc {
				runtime.ReadMemStats(&ms1)
				r.Alloc = ms1.TotalAlloc - ms0.TotalAlloc
			}
			if err != nil {
				r.Kind, r.Err = "err", err
			} else {
				r.Kind = "m"
			}
		}
		if opt.Wrap != nil {
			opt.Wrap(call)
		} else {
			call()
		}
		r.Pos, r.Consumed, r.Reads = tr.Pos, tr.Pos-tr.start, tr.reads
		r.C0, r.RealCap, r.MaxCap, r.ReqCap = tr.c0, tr.realCap, tr.maxCap, tr.reqCap
		recvs = append(recvs, r)
		if r.Kind != "m" {
			return recvs, false, tr
		}
	}
	return recvs, true, tr
}

// C0 is the initial buffer capacity observed at the first call (512 when nothing was observed).
func C0(recvs []Recv) int {
	if len(recvs) > 0 && recvs[0].Reads > 0 {
		return recvs[0].C0
	}
	return 512
}

// C0s renders the initial buffer capacity of every call: one number when it is the same for all calls (a
// fresh buffer per call, as today), otherwise the comma-separated list of what each call started with (an
// implementation that keeps its buffer between calls starts a call with the capacity the previous one left):
// the model is run with the same capacities, so that neither choice is taken for a difference.
func C0s(recvs []Recv) string {
	first := C0(recvs)
	parts := make([]string, 0, len(recvs))
	same, last := true, first
	for _, r := range recvs {
		if r.Reads > 0 {
			last = r.C0
		}
		if last != first {
			same = false
		}
		parts = append(parts, strconv.Itoa(last))
	}
	if same {
		return strconv.Itoa(first)
	}
	return strings.Join(parts, ",")
}

// Render is the canonical answer compared with the model's: error classes and texts are not part of it.
func Render(recvs []Recv, more bool, pos int) string {
	var sb strings.Builder
	sb.WriteString("ok ")
	for _, r := range recvs {
		fmt.Fprintf(&sb, "%s@%d:%d", r.Kind, r.Pos, r.ReqCap)
		if r.Kind == "m" {
			sb.WriteByte(' ')
		}
	}
	if more {
		fmt.Fprintf(&sb, "more@%d", pos)
	}
	return sb.String()
}

func RenderSched(s []ReadEv) string {
	if len(s) == 0 {
		return "-"
	}
	parts := make([]string, len(s))
	for i, e := range s {
		parts[i] = strconv.Itoa(e.K)
		if e.WithErr {
			parts[i] += "e"
		}
	}
	return strings.Join(parts, ",")
}

func ParseSched(s string) []ReadEv {
	if s == "-" || s == "" {
		return nil
	}
	var out []ReadEv
	for _, p := range strings.Split(s, ",") {
		e := ReadEv{}
		if strings.HasSuffix(p, "e") {
			e.WithErr = true
			p = p[:len(p)-1]
		}
		e.K, _ = strconv.Atoi(p)
		out = append(out, e)
	}
	return out
}

const hexdigits = "0123456789ABCDEF"

func HexUp(b []byte) string {
	if len(b) == 0 {
		return "-"
	}
	out := make([]byte, 2*len(b))
	for i, x := range b {
		out[2*i], out[2*i+1] = hexdigits[x>>4], hexdigits[x&15]
	}
	return string(out)
}

// Line renders the protocol line `stream.recv <max> <c0> <hex wire|-> <schedule|->`.
func Line(max, c0 int, wire []byte, sched []ReadEv) string {
	return LineC(max, strconv.Itoa(c0), wire, sched)
}

// LineC is Line with the capacities rendered by C0s.
func LineC(max int, c0s string, wire []byte, sched []ReadEv) string {
	return fmt.Sprintf("stream.recv %d %s %s %s", max, c0s, HexUp(wire), RenderSched(sched))
}

// ParseLine is the inverse of Line (a leading "#" — impl-only line — is accepted).
func ParseLine(l string) (max, c0 int, wire []byte, sched []ReadEv, ok bool) {
	f := strings.Fields(strings.TrimPrefix(strings.TrimSpace(l), "#"))
	if len(f) != 5 || f[0] != "stream.recv" {
		return
	}
	var err error
	if max, err = strconv.Atoi(f[1]); err != nil {
		return
	}
	if c0, err = strconv.Atoi(strings.SplitN(f[2], ",", 2)[0]); err != nil {
		return
	}
	if f[3] != "-" {
		if wire, err = hex.DecodeString(f[3]); err != nil {
			return
		}
	}
	return max, c0, wire, ParseSched(f[4]), true
}
